package sym

// interp.go: the SSA interpreter proper (frames, instructions, calls, defers, panics).

import (
	"fmt"
	"go/token"
	"go/types"
	"os"
	"strings"

	"golang.org/x/tools/go/ssa"
)

var traceFn = os.Getenv("HCSYM_TRACE")

type fnInfo struct {
	pure   int
	idx    map[ssa.Value]int
	n      int
	target *ssa.Function // substituted model function (or the function itself)
	nat    *native
	name   string
}

type deferred struct {
	fn   value
	args []value
	tail *deferred
}

type frame struct {
	m           *Machine
	caller      *frame
	fn          *ssa.Function
	info        *fnInfo
	block, prev *ssa.BasicBlock
	env         []value
	defers      *deferred
	result      value
	panicking   bool
	panicv      interface{}
	depth       int
}

func (m *Machine) info(fn *ssa.Function) *fnInfo {
	if in, ok := m.fnInfos[fn]; ok {
		return in
	}
	in := &fnInfo{idx: map[ssa.Value]int{}, name: fn.String()}
	m.fnInfos[fn] = in
	in.target = fn
	if nat, ok := m.P.natives[in.name]; ok {
		in.nat = nat
	} else if sub, ok := m.P.subst[in.name]; ok {
		in.target = sub
	} else if fn.Origin() != nil {
		// instantiated generic: look up by origin name
		on := fn.Origin().String()
		if nat, ok := m.P.natives[on]; ok {
			in.nat = nat
		}
	}
	n := 0
	add := func(v ssa.Value) {
		in.idx[v] = n
		n++
	}
	for _, p := range fn.Params {
		add(p)
	}
	for _, fv := range fn.FreeVars {
		add(fv)
	}
	for _, b := range fn.Blocks {
		for _, ins := range b.Instrs {
			if v, ok := ins.(ssa.Value); ok {
				add(v)
			}
		}
	}
	in.n = n
	return in
}

func (fr *frame) get(key ssa.Value) value {
	switch key := key.(type) {
	case nil:
		return nil
	case *ssa.Function:
		return key
	case *ssa.Builtin:
		return key
	case *ssa.Const:
		return fr.m.constValue(key)
	case *ssa.Global:
		return fr.m.globalAddr(key)
	}
	if i, ok := fr.info.idx[key]; ok {
		v := fr.env[i]
		if v == nil {
			panic(fmt.Sprintf("get: unset value %s in %s", key.Name(), fr.fn))
		}
		return v
	}
	panic(fmt.Sprintf("get: no value for %T %s in %s", key, key.Name(), fr.fn))
}

func (fr *frame) set(key ssa.Value, v value) {
	fr.env[fr.info.idx[key]] = v
}

func (m *Machine) constValue(c *ssa.Const) value {
	if c.Value == nil {
		return m.zero(c.Type())
	}
	t := c.Type().Underlying()
	if b, ok := t.(*types.Basic); ok {
		switch {
		case b.Info()&types.IsBoolean != 0:
			return m.tt.Bool(constBool(c))
		case b.Info()&types.IsInteger != 0:
			if b.Info()&types.IsUnsigned != 0 {
				return m.tt.Const(BV(intWidth(b)), c.Uint64())
			}
			return m.tt.Const(BV(intWidth(b)), uint64(c.Int64()))
		case b.Info()&types.IsFloat != 0:
			return m.tt.FConst(FP(floatWidth(b)), c.Float64())
		case b.Info()&types.IsString != 0:
			return constString(c)
		case b.Info()&types.IsComplex != 0:
			cv := c.Complex128()
			return structure{m.tt.FConst(FP(64), real(cv)), m.tt.FConst(FP(64), imag(cv))}
		}
	}
	panic(m.unsupported("constant %v of type %v", c, c.Type()))
}

// globalAddr returns the address of a package-level variable, running the package
// initialiser lazily on first access.
func (m *Machine) globalAddr(g *ssa.Global) *value {
	if p, ok := m.globals[g]; ok {
		return p
	}
	pkg := g.Pkg
	if !initIsAllowed(pkg.Pkg.Path()) {
		if !zeroGlobalOK[g.String()] {
			panic(m.unsupported("global %s: package initialiser of %s is not interpreted", g.String(), pkg.Pkg.Path()))
		}
		p := new(value)
		*p = m.zero(typeOfPtrElem(g.Type()))
		m.globals[g] = p
		return p
	}
	if !m.initDone[pkg] {
		m.initPackage(pkg)
		if p, ok := m.globals[g]; ok {
			return p
		}
	}
	p := new(value)
	*p = m.zero(typeOfPtrElem(g.Type()))
	m.globals[g] = p
	return p
}

var zeroGlobalOK = map[string]bool{"os.Stdout": true, "os.Stderr": true, "os.Stdin": true, "os.Args": true, "internal/cpu.X86": true}

func (m *Machine) initPackage(pkg *ssa.Package) {
	if m.initDone[pkg] {
		return
	}
	m.initDone[pkg] = true
	// allocate all globals first
	for _, mem := range pkg.Members {
		if g, ok := mem.(*ssa.Global); ok {
			if _, ok := m.globals[g]; !ok {
				p := new(value)
				*p = m.zero(typeOfPtrElem(g.Type()))
				m.globals[g] = p
			}
		}
	}
	if m.P.skipInit[pkg.Pkg.Path()] {
		return
	}
	init := pkg.Func("init")
	if init == nil || init.Blocks == nil {
		return
	}
	saved := m.curFrame
	m.callSSA(nil, init, nil, nil)
	m.curFrame = saved
}

func (m *Machine) step() {
	m.steps++
	if m.steps > m.lim.MaxSteps {
		panic(m.boundFail("instruction budget %d exceeded", m.lim.MaxSteps))
	}
}

type continuation int

const (
	kNext continuation = iota
	kReturn
	kJump
)

func (fr *frame) visit(instr ssa.Instruction) continuation {
	m := fr.m
	switch instr := instr.(type) {
	case *ssa.DebugRef:

	case *ssa.UnOp:
		fr.set(instr, m.unop(instr, fr.get(instr.X)))

	case *ssa.BinOp:
		if instr.Op == token.SHL || instr.Op == token.SHR {
			// a negative shift count is a run-time panic
			if b, ok := instr.Y.Type().Underlying().(*types.Basic); ok && b.Info()&types.IsInteger != 0 && b.Info()&types.IsUnsigned == 0 {
				if yt, ok := fr.get(instr.Y).(*Term); ok {
					if m.branch(m.tt.Bin(OpSLt, yt, m.tt.Const(yt.Sort, 0)), "negative shift amount") {
						panic(m.runtimePanic("negative shift amount"))
					}
				}
			}
		}
		fr.set(instr, m.binop(instr.Op, instr.X.Type(), fr.get(instr.X), fr.get(instr.Y)))

	case *ssa.Call:
		fn, args := fr.prepareCall(&instr.Call)
		fr.set(instr, m.call(fr, fn, args))

	case *ssa.ChangeInterface:
		fr.set(instr, fr.get(instr.X))

	case *ssa.ChangeType:
		fr.set(instr, fr.get(instr.X))

	case *ssa.Convert:
		fr.set(instr, m.conv(instr.Type(), instr.X.Type(), fr.get(instr.X)))

	case *ssa.SliceToArrayPointer:
		x := fr.get(instr.X).([]value)
		n := int(typeOfPtrElem(instr.Type()).Underlying().(*types.Array).Len())
		if len(x) < n {
			panic(m.runtimePanic("cannot convert slice to array pointer: slice too short"))
		}
		if n == 0 {
			p := new(value)
			*p = array{}
			fr.set(instr, p)
		} else {
			// array aliasing the slice is not representable; copy-on-convert is only sound
			// if not written through; flag as unsupported when used (rare).
			panic(m.unsupported("SliceToArrayPointer"))
		}

	case *ssa.MakeInterface:
		fr.set(instr, iface{t: instr.X.Type(), v: fr.get(instr.X)})

	case *ssa.Extract:
		fr.set(instr, fr.get(instr.Tuple).(tuple)[instr.Index])

	case *ssa.Slice:
		fr.set(instr, m.slice(instr, fr.get(instr.X), fr.get(instr.Low), fr.get(instr.High), fr.get(instr.Max)))

	case *ssa.Return:
		switch len(instr.Results) {
		case 0:
		case 1:
			fr.result = fr.get(instr.Results[0])
		default:
			res := make(tuple, len(instr.Results))
			for i, r := range instr.Results {
				res[i] = fr.get(r)
			}
			fr.result = res
		}
		fr.block = nil
		return kReturn

	case *ssa.RunDefers:
		fr.runDefers()

	case *ssa.Panic:
		panic(targetPanic{fr.get(instr.X)})

	case *ssa.Store:
		m.store(fr.get(instr.Addr), fr.get(instr.Val))

	case *ssa.If:
		cond := fr.get(instr.Cond).(*Term)
		if !cond.IsConst() && !m.noMerge && fr.tryMergeIf(instr, cond) {
			fr.block = nil
			return kReturn
		}
		succ := 1
		if m.branch(cond, "if") {
			succ = 0
		}
		fr.prev, fr.block = fr.block, fr.block.Succs[succ]
		return kJump

	case *ssa.Jump:
		fr.prev, fr.block = fr.block, fr.block.Succs[0]
		return kJump

	case *ssa.Defer:
		fn, args := fr.prepareCall(&instr.Call)
		fr.defers = &deferred{fn: fn, args: args, tail: fr.defers}

	case *ssa.Go:
		fn, args := fr.prepareCall(&instr.Call)
		m.spawn(fr, fn, args)

	case *ssa.Alloc:
		addr := new(value)
		*addr = m.zero(typeOfPtrElem(instr.Type()))
		fr.set(instr, addr)

	case *ssa.MakeSlice:
		tElt := instr.Type().Underlying().(*types.Slice).Elem()
		lenT := m.toInt64(fr.get(instr.Len).(*Term), instr.Len.Type())
		capT := m.toInt64(fr.get(instr.Cap).(*Term), instr.Cap.Type())
		var n, c int64
		trunc := false
		if lenT == capT {
			n, trunc = m.concretizeLen(lenT, "make len")
			c = n
		} else {
			n, trunc = m.concretizeLen(lenT, "make len")
			c = m.concretize(capT, "make cap")
		}
		if n < 0 || c < n {
			panic(m.runtimePanic("makeslice: len out of range"))
		}
		if c > 1<<24 {
			panic(m.boundFail("make of %d elements", c))
		}
		s := make([]value, c)
		z := m.zero(tElt)
		for i := range s {
			s[i] = copyVal(z)
		}
		if trunc && c > 0 {
			m.truncEnd[&s[c-1]] = true
		}
		fr.set(instr, s[:n])

	case *ssa.MakeMap:
		fr.set(instr, m.newMap(instr.Type().Underlying().(*types.Map).Key()))

	case *ssa.MakeChan:
		c := m.concreteInt(m.toInt64(fr.get(instr.Size).(*Term), instr.Size.Type()), "chan size")
		fr.set(instr, &chanV{cap: int(c)})

	case *ssa.Range:
		fr.set(instr, m.rangeIter(fr.get(instr.X), instr.X.Type()))

	case *ssa.Next:
		fr.set(instr, fr.get(instr.Iter).(iterator).next(m))

	case *ssa.FieldAddr:
		p := fr.get(instr.X).(*value)
		if p == nil {
			panic(m.runtimePanic("invalid memory address or nil pointer dereference"))
		}
		if m.thr != nil && len(m.thr.watch) > 0 {
			st := typeOfPtrElem(instr.X.Type()).Underlying().(*types.Struct)
			if m.thr.watch[st.Field(instr.Field).Name()] {
				m.yield("field:" + st.Field(instr.Field).Name())
			}
		}
		fr.set(instr, &(*p).(structure)[instr.Field])

	case *ssa.Field:
		fr.set(instr, fr.get(instr.X).(structure)[instr.Field])

	case *ssa.IndexAddr:
		x := fr.get(instr.X)
		idx := fr.get(instr.Index).(*Term)
		idx = m.toInt64(idx, instr.Index.Type())
		var base []value
		switch x := x.(type) {
		case []value:
			base = x
		case *value:
			if x == nil {
				panic(m.runtimePanic("invalid memory address or nil pointer dereference"))
			}
			base = (*x).(array)
		default:
			panic(fmt.Sprintf("IndexAddr on %T", x))
		}
		fr.set(instr, m.indexAddr(base, idx))

	case *ssa.Index:
		x := fr.get(instr.X)
		idx := m.toInt64(fr.get(instr.Index).(*Term), instr.Index.Type())
		switch x := x.(type) {
		case array:
			fr.set(instr, m.indexValue([]value(x), idx))
		case string, symString:
			bs := m.strBytes(x)
			vs := make([]value, len(bs))
			for i, b := range bs {
				vs[i] = b
			}
			fr.set(instr, m.indexValue(vs, idx))
		default:
			panic(fmt.Sprintf("Index on %T", x))
		}

	case *ssa.Lookup:
		fr.set(instr, m.lookup(instr, fr.get(instr.X), fr.get(instr.Index)))

	case *ssa.MapUpdate:
		m.mapSet(fr.get(instr.Map).(*mapV), fr.get(instr.Key), copyVal(fr.get(instr.Value)))

	case *ssa.TypeAssert:
		fr.set(instr, m.typeAssert(instr, fr.get(instr.X).(iface)))

	case *ssa.MakeClosure:
		var bindings []value
		for _, b := range instr.Bindings {
			bindings = append(bindings, fr.get(b))
		}
		fr.set(instr, &closure{instr.Fn.(*ssa.Function), bindings})

	case *ssa.Phi:
		panic("phi reached in visit")

	case *ssa.Send:
		m.chanSend(fr.get(instr.Chan).(*chanV), fr.get(instr.X))

	case *ssa.Select:
		fr.set(instr, m.chanSelect(fr, instr))

	default:
		panic(m.unsupported("instruction %T", instr))
	}
	return kNext
}

// indexAddr returns the address of base[idx] (bounds-checked; symbolic idx supported for scalars).
func (m *Machine) indexAddr(base []value, idx *Term) value {
	n := int64(len(base))
	if idx.IsConst() {
		i := idx.SVal()
		if i < 0 || i >= n {
			panic(m.runtimePanic(fmt.Sprintf("index out of range [%d] with length %d", i, n)))
		}
		return &base[i]
	}
	inRange := m.tt.Bin(OpULt, idx, m.intConst(n))
	if !m.branch(inRange, "index bounds") {
		panic(m.runtimePanic(fmt.Sprintf("index out of range [symbolic] with length %d", n)))
	}
	if n == 1 {
		return &base[0]
	}
	if _, scalar := base[0].(*Term); scalar && n <= 4096 {
		return &symPtr{base: base, idx: idx}
	}
	if sameLenStrings(base) && n <= 256 {
		return &symPtr{base: base, idx: idx}
	}
	i := m.concretize(idx, "index")
	return &base[i]
}

func sameLenStrings(base []value) bool {
	l := -1
	for _, b := range base {
		switch s := b.(type) {
		case string:
			if l >= 0 && len(s) != l {
				return false
			}
			l = len(s)
		case symString:
			if l >= 0 && len(s) != l {
				return false
			}
			l = len(s)
		default:
			return false
		}
	}
	return l >= 0
}

// indexValue returns base[idx] by value.
func (m *Machine) indexValue(base []value, idx *Term) value {
	n := int64(len(base))
	if idx.IsConst() {
		i := idx.SVal()
		if i < 0 || i >= n {
			panic(m.runtimePanic(fmt.Sprintf("index out of range [%d] with length %d", i, n)))
		}
		return base[i]
	}
	inRange := m.tt.Bin(OpULt, idx, m.intConst(n))
	if !m.branch(inRange, "index bounds") {
		panic(m.runtimePanic(fmt.Sprintf("index out of range [symbolic] with length %d", n)))
	}
	return m.selectValue(base, idx)
}

// selectValue builds an ite chain base[idx] for scalar elements.
func (m *Machine) selectValue(base []value, idx *Term) value {
	if len(base) == 1 {
		return base[0]
	}
	if sameLenStrings(base) && len(base) <= 256 {
		l := strLen(base[0])
		out := make([]*Term, l)
		for k := 0; k < l; k++ {
			res := m.strBytes(base[len(base)-1])[k]
			for i := len(base) - 2; i >= 0; i-- {
				res = m.tt.Ite(m.tt.Eq(idx, m.intConst(int64(i))), m.strBytes(base[i])[k], res)
			}
			out[k] = res
		}
		return m.mkString(out)
	}
	if _, scalar := base[0].(*Term); !scalar || len(base) > 4096 {
		i := m.concretize(idx, "index")
		return base[i]
	}
	// run-length compressed chain: consecutive equal entries become one range test
	// (idx is known to be in range, so the last run needs no test)
	type run struct {
		end int // exclusive
		v   *Term
	}
	var runs []run
	for i, b := range base {
		t := b.(*Term)
		if n := len(runs); n > 0 && runs[n-1].v == t {
			runs[n-1].end = i + 1
		} else {
			runs = append(runs, run{i + 1, t})
		}
	}
	res := runs[len(runs)-1].v
	for i := len(runs) - 2; i >= 0; i-- {
		var c *Term
		start := 0
		if i > 0 {
			start = runs[i-1].end
		}
		if runs[i].end-start == 1 && len(runs) == len(base) {
			c = m.tt.Eq(idx, m.intConst(int64(start)))
		} else {
			c = m.tt.Bin(OpULt, idx, m.intConst(int64(runs[i].end)))
		}
		res = m.tt.Ite(c, runs[i].v, res)
	}
	return res
}

func (m *Machine) toInt64(t *Term, typ types.Type) *Term {
	if t.Sort.W == 64 {
		return t
	}
	if isSigned(typ) {
		return m.tt.SExt(t, 64)
	}
	return m.tt.ZExt(t, 64)
}

func (m *Machine) load(addr value) value {
	switch p := addr.(type) {
	case *value:
		if p == nil {
			panic(m.runtimePanic("invalid memory address or nil pointer dereference"))
		}
		return copyVal(*p)
	case *symPtr:
		return m.selectValue(p.base, p.idx)
	}
	panic(fmt.Sprintf("load from %T", addr))
}

func (m *Machine) store(addr, v value) {
	switch p := addr.(type) {
	case *value:
		if p == nil {
			panic(m.runtimePanic("invalid memory address or nil pointer dereference"))
		}
		if len(m.truncEnd) > 0 && m.truncEnd[p] {
			panic(m.boundFail("write reaches the end of a slice materialised only up to the make cap"))
		}
		assignInPlace(p, v)
	case *symPtr:
		nv, ok := v.(*Term)
		if !ok {
			i := m.concretize(p.idx, "store index")
			p.base[i] = copyVal(v)
			return
		}
		for i := range p.base {
			old := p.base[i].(*Term)
			p.base[i] = m.tt.Ite(m.tt.Eq(p.idx, m.intConst(int64(i))), nv, old)
		}
	default:
		panic(fmt.Sprintf("store to %T", addr))
	}
}

// assignInPlace stores v into *p. Aggregates are copied element-wise into the existing
// backing storage, so that addresses of fields/elements taken earlier stay valid (Go
// semantics: a struct assignment does not move the struct).
func assignInPlace(p *value, v value) {
	switch nv := v.(type) {
	case structure:
		if old, ok := (*p).(structure); ok && len(old) == len(nv) {
			for i := range nv {
				assignInPlace(&old[i], nv[i])
			}
			return
		}
	case array:
		if old, ok := (*p).(array); ok && len(old) == len(nv) {
			for i := range nv {
				assignInPlace(&old[i], nv[i])
			}
			return
		}
	}
	*p = copyVal(v)
}

func (fr *frame) prepareCall(call *ssa.CallCommon) (fn value, args []value) {
	m := fr.m
	v := fr.get(call.Value)
	if call.Method == nil {
		fn = v
	} else {
		recv := v.(iface)
		if recv.t == nil {
			panic(m.runtimePanic("invalid memory address or nil pointer dereference (method call on nil interface)"))
		}
		f := m.P.lookupMethod(recv.t, call.Method)
		if f == nil {
			panic(m.unsupported("method %s not found for dynamic type %v", call.Method.Name(), recv.t))
		}
		fn = f
		args = append(args, recv.v)
	}
	for _, a := range call.Args {
		args = append(args, fr.get(a))
	}
	return
}

func (m *Machine) call(caller *frame, fn value, args []value) value {
	switch fn := fn.(type) {
	case *ssa.Function:
		if fn == nil {
			panic(m.runtimePanic("call of nil function"))
		}
		return m.callSSA(caller, fn, args, nil)
	case *closure:
		return m.callSSA(caller, fn.fn, args, fn.env)
	case *ssa.Builtin:
		return m.callBuiltin(caller, fn, args)
	case *native:
		return fn.fn(caller, args)
	case nilFunc:
		panic(m.runtimePanic("invalid memory address or nil pointer dereference (nil func call)"))
	}
	panic(fmt.Sprintf("call of non-function %T", fn))
}

func (m *Machine) callSSA(caller *frame, fn *ssa.Function, args []value, env []value) value {
	if caller != nil && fn.Name() == "init" && fn.Pkg != nil && fn.Signature.Recv() == nil && caller.fn.Name() == "init" && fn.Pkg.Func("init") == fn {
		if initIsAllowed(fn.Pkg.Pkg.Path()) {
			m.initPackage(fn.Pkg)
		}
		return nil
	}
	in := m.info(fn)
	if in.nat != nil {
		m.noteCall(in.name)
		return in.nat.fn(caller, args)
	}
	if in.target != fn {
		m.noteCall(in.name)
		fn = in.target
		in = m.info(fn)
	}
	if len(m.forbid) > 0 {
		if lbl, ok := m.forbid[in.name]; ok {
			m.violateForbid(in.name, lbl)
		}
	}
	if m.P.countCalls[in.name] {
		m.noteCall(in.name)
	}
	if fn.Blocks == nil {
		panic(m.unsupported("call of function without body: %s", in.name))
	}
	m.depth++
	if m.depth > 400 {
		panic(m.boundFail("call depth exceeded"))
	}
	fr := &frame{m: m, caller: caller, fn: fn, info: in, depth: m.depth}
	fr.env = make([]value, in.n)
	for i, p := range fn.Params {
		fr.env[in.idx[p]] = args[i]
	}
	for i, fv := range fn.FreeVars {
		fr.env[in.idx[fv]] = env[i]
	}
	fr.block = fn.Blocks[0]
	m.curFrame = fr
	for fr.block != nil {
		fr.runBlocks()
	}
	m.depth--
	m.curFrame = caller
	return fr.result
}

// runBlocks executes until return; a target panic triggers the deferred calls and may be
// recovered, in which case execution resumes at the Recover block.
func (fr *frame) runBlocks() {
	m := fr.m
	defer func() {
		if fr.block == nil {
			return // normal return
		}
		r := recover()
		if r == nil {
			return
		}
		if _, ok := r.(targetPanic); !ok {
			panic(r) // engine abort or engine bug: propagate
		}
		m.curFrame = fr
		m.depth = fr.depth
		fr.panicking = true
		fr.panicv = r
		fr.runDefers() // re-panics if not recovered
		// recovered
		fr.block = fr.fn.Recover
		if fr.block == nil {
			// no named results: function returns zero values
			fr.result = m.zero(fr.fn.Signature.Results())
			if fr.fn.Signature.Results().Len() == 0 {
				fr.result = nil
			}
		}
	}()
	for {
		// phis
		b := fr.block
		i := 0
		if fr.prev != nil && len(b.Instrs) > 0 {
			if _, ok := b.Instrs[0].(*ssa.Phi); ok {
				predIdx := -1
				for k, p := range b.Preds {
					if p == fr.prev {
						predIdx = k
						break
					}
				}
				var tmp []value
				for ; i < len(b.Instrs); i++ {
					phi, ok := b.Instrs[i].(*ssa.Phi)
					if !ok {
						break
					}
					tmp = append(tmp, fr.get(phi.Edges[predIdx]))
				}
				for k := 0; k < i; k++ {
					fr.set(b.Instrs[k].(*ssa.Phi), tmp[k])
				}
			}
		}
	instrs:
		for ; i < len(b.Instrs); i++ {
			m.step()
			if traceFn != "" && strings.Contains(fr.info.name, traceFn) {
				fmt.Fprintf(os.Stderr, "TRACE %s b%d: %v\n", fr.fn.Name(), b.Index, b.Instrs[i])
			}
			switch fr.visit(b.Instrs[i]) {
			case kReturn:
				return
			case kJump:
				break instrs
			}
		}
	}
}

func (fr *frame) runDefers() {
	for d := fr.defers; d != nil; d = fr.defers {
		fr.defers = d.tail
		fr.runDefer(d)
	}
	if fr.panicking {
		panic(fr.panicv)
	}
}

func (fr *frame) runDefer(d *deferred) {
	ok := false
	defer func() {
		if !ok {
			r := recover()
			if _, isT := r.(targetPanic); !isT {
				panic(r)
			}
			fr.panicking = true
			fr.panicv = r
			fr.m.curFrame = fr
		}
	}()
	fr.m.call(fr, d.fn, d.args)
	ok = true
}

func (m *Machine) typeAssert(instr *ssa.TypeAssert, itf iface) value {
	var v value
	ok := false
	if itf.t != nil {
		if idst, isI := instr.AssertedType.Underlying().(*types.Interface); isI {
			if m.P.implements(itf.t, idst) {
				v = itf
				ok = true
			}
		} else if types.Identical(itf.t, instr.AssertedType) {
			v = copyVal(itf.v)
			ok = true
		}
	}
	if !ok {
		if !instr.CommaOk {
			if itf.t == nil {
				panic(m.runtimePanic(fmt.Sprintf("interface conversion: interface is nil, not %v", instr.AssertedType)))
			}
			panic(m.runtimePanic(fmt.Sprintf("interface conversion: interface is %v, not %v", itf.t, instr.AssertedType)))
		}
		v = m.zero(instr.AssertedType)
	}
	if instr.CommaOk {
		return tuple{v, m.tt.Bool(ok)}
	}
	return v
}

func (m *Machine) lookup(instr *ssa.Lookup, x, idx value) value {
	switch x := x.(type) {
	case *mapV:
		e := m.mapFind(x, idx)
		var v value
		if e != nil {
			v = copyVal(e.v)
		} else {
			v = m.zero(instr.X.Type().Underlying().(*types.Map).Elem())
		}
		if instr.CommaOk {
			return tuple{v, m.tt.Bool(e != nil)}
		}
		return v
	}
	panic(fmt.Sprintf("lookup on %T", x))
}

func (m *Machine) slice(instr *ssa.Slice, x, lo, hi, max value) value {
	var loI, hiI, maxI int64
	var length, capacity int64
	switch x := x.(type) {
	case string, symString:
		length = int64(strLen(x))
		capacity = length
	case []value:
		length = int64(len(x))
		capacity = int64(cap(x))
	case *value:
		if x == nil {
			panic(m.runtimePanic("slice of nil array pointer"))
		}
		a := (*x).(array)
		length = int64(len(a))
		capacity = length
	}
	_ = length
	loI = 0
	if lo != nil {
		loI = m.concreteInt(m.toInt64(lo.(*Term), instr.Low.Type()), "slice low")
	}
	switch {
	case hi != nil:
		hiI = m.concreteInt(m.toInt64(hi.(*Term), instr.High.Type()), "slice high")
	default:
		hiI = length
	}
	maxI = capacity
	if max != nil {
		maxI = m.concreteInt(m.toInt64(max.(*Term), instr.Max.Type()), "slice max")
	}
	if _, isStr := x.(string); isStr {
		maxI = capacity
	}
	if loI < 0 || hiI < loI || maxI < hiI || maxI > capacity {
		panic(m.runtimePanic(fmt.Sprintf("slice bounds out of range [%d:%d:%d] with capacity %d", loI, hiI, maxI, capacity)))
	}
	switch x := x.(type) {
	case string:
		return x[loI:hiI]
	case symString:
		return m.mkString(x[loI:hiI])
	case []value:
		if x == nil {
			return []value(nil)
		}
		return x[loI:hiI:maxI]
	case *value:
		a := (*x).(array)
		return []value(a)[loI:hiI:maxI]
	}
	panic(fmt.Sprintf("slice of %T", x))
}

// ---- range ----

type iterator interface {
	next(m *Machine) tuple
}

type stringIter struct {
	s string
	i int
}

func (it *stringIter) next(m *Machine) tuple {
	if it.i >= len(it.s) {
		return tuple{m.tt.False, m.intConst(0), m.tt.Const(BV(32), 0)}
	}
	var r rune
	var w int
	for j, c := range it.s[it.i:] {
		if j == 0 {
			r = c
			continue
		}
		w = j
		break
	}
	if w == 0 {
		w = len(it.s) - it.i
	}
	idx := it.i
	it.i += w
	return tuple{m.tt.True, m.intConst(int64(idx)), m.tt.Const(BV(32), uint64(r))}
}

type mapIter struct {
	entries []*mapEntry
	i       int
}

func (it *mapIter) next(m *Machine) tuple {
	for it.i < len(it.entries) {
		e := it.entries[it.i]
		it.i++
		if e.deleted {
			continue
		}
		return tuple{m.tt.True, e.k, copyVal(e.v)}
	}
	return tuple{m.tt.False, nil, nil}
}

func (m *Machine) rangeIter(x value, t types.Type) iterator {
	switch x := x.(type) {
	case string:
		return &stringIter{s: x}
	case symString:
		// ranging decodes UTF-8; only ASCII-constrained symbolic strings are handled: treat bytes
		// as concrete requirement
		return &symStringIter{s: x}
	case *mapV:
		if x == nil {
			return &mapIter{}
		}
		ents := x.live()
		if m.mapOrder && len(ents) > 1 {
			// choose an arbitrary permutation (Go's map iteration order is unspecified)
			m.facts["_maporder"] = "nondet"
			perm := make([]*mapEntry, 0, len(ents))
			rest := append([]*mapEntry(nil), ents...)
			for len(rest) > 0 {
				k := m.choice(len(rest), "map order")
				perm = append(perm, rest[k])
				rest = append(rest[:k], rest[k+1:]...)
			}
			ents = perm
		}
		return &mapIter{entries: ents}
	}
	panic(fmt.Sprintf("range over %T", x))
}

func constBool(c *ssa.Const) bool {
	return c.Value.String() == "true"
}

var _ = token.ADD
