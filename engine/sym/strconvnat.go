package sym

// strconvnat.go: strconv functions. Concrete arguments are evaluated exactly with the host
// strconv (same std library as the code under test); symbolic arguments are abstracted:
//
//   AppendFloat/FormatFloat(f) symbolic: "0" / "-0" / "1" for those values, otherwise the
//       opaque marker "<float>" (a string that is no boolean token and no decimal integer;
//       only ParseBool/ParseUint ever look at it in hc's conversion code)
//   ParseFloat(s) symbolic: an arbitrary float64 (any bit pattern) and an arbitrary error
//       outcome (every float64 is the parse of some string, NaN and Inf included)
//   ParseUint(s) symbolic: exact Go-source model (models.ParseUint) for <= 18 characters

import (
	"strconv"
)

func registerStrconvNatives(P *Program, reg func(string, func(fr *frame, args []value) value)) {
	fmtFloat := func(m *Machine, f *Term, fmtc, prec, bits *Term) string {
		if f.IsConst() && fmtc.IsConst() && prec.IsConst() && bits.IsConst() {
			return strconv.FormatFloat(fpConstVal(f), byte(fmtc.Val), int(prec.SVal()), int(bits.SVal()))
		}
		tt := m.tt
		zero := tt.FConst(f.Sort, 0)
		one := tt.FConst(f.Sort, 1)
		if m.branch(tt.FBin(OpFEq, f, zero), "FormatFloat zero") {
			// +0 or -0
			neg := tt.Eq(tt.Extract(m.floatBits(f), f.Sort.W-1, f.Sort.W-1), tt.Const(BV(1), 1))
			if m.branch(neg, "FormatFloat -0") {
				return "-0"
			}
			return "0"
		}
		if m.branch(tt.FBin(OpFEq, f, one), "FormatFloat one") {
			return "1"
		}
		return "<float>"
	}
	reg("strconv.FormatFloat", func(fr *frame, a []value) value {
		return fmtFloat(fr.m, a[0].(*Term), a[1].(*Term), a[2].(*Term), a[3].(*Term))
	})
	reg("strconv.AppendFloat", func(fr *frame, a []value) value {
		m := fr.m
		s := fmtFloat(m, a[1].(*Term), a[2].(*Term), a[3].(*Term), a[4].(*Term))
		dst := a[0].([]value)
		out := append([]value(nil), dst...)
		for i := 0; i < len(s); i++ {
			out = append(out, m.tt.Const(BV(8), uint64(s[i])))
		}
		return out
	})
	reg("strconv.ParseFloat", func(fr *frame, a []value) value {
		m := fr.m
		bits := a[1].(*Term)
		if s, ok := a[0].(string); ok && bits.IsConst() {
			f, err := strconv.ParseFloat(s, int(bits.SVal()))
			var ev value = iface{}
			if err != nil {
				ev = m.newError(err.Error())
			}
			return tuple{m.tt.FConst(FP(64), f), ev}
		}
		f := m.tt.FFromBits(m.tt.Var(m.freshName("parsefloat"), BV(64)))
		okv := m.tt.Var(m.freshName("parsefloat-ok"), BoolSort)
		if m.branch(okv, "ParseFloat ok") {
			return tuple{f, iface{}}
		}
		return tuple{f, m.newError("strconv.ParseFloat: parsing: invalid syntax")}
	})
	reg("strconv.ParseUint", func(fr *frame, a []value) value {
		m := fr.m
		base, bits := a[1].(*Term), a[2].(*Term)
		if s, ok := a[0].(string); ok && base.IsConst() && bits.IsConst() {
			u, err := strconv.ParseUint(s, int(base.SVal()), int(bits.SVal()))
			var ev value = iface{}
			if err != nil {
				ev = m.newError(err.Error())
			}
			return tuple{m.tt.Const(BV(64), u), ev}
		}
		f := m.P.Func(modelsPkg, "ParseUint")
		if f == nil {
			panic(m.unsupported("models.ParseUint missing"))
		}
		return m.callSSA(fr, f, a, nil)
	})
	reg("strconv.ParseInt", func(fr *frame, a []value) value {
		m := fr.m
		base, bits := a[1].(*Term), a[2].(*Term)
		if s, ok := a[0].(string); ok && base.IsConst() && bits.IsConst() {
			u, err := strconv.ParseInt(s, int(base.SVal()), int(bits.SVal()))
			var ev value = iface{}
			if err != nil {
				ev = m.newError(err.Error())
			}
			return tuple{m.tt.Const(BV(64), uint64(u)), ev}
		}
		f := m.P.Func(modelsPkg, "ParseInt")
		if f == nil {
			panic(m.unsupported("models.ParseInt missing"))
		}
		return m.callSSA(fr, f, a, nil)
	})
}
