package sym

// explore.go: path exploration by re-execution along decision prefixes, sharded over workers.

import (
	"fmt"
	"os"
	"sort"
	"strings"
	"sync"
	"sync/atomic"
	"time"

	"golang.org/x/tools/go/ssa"
)

func nowNano() int64 { return time.Now().UnixNano() }

type Explorer struct {
	P         *Program
	Harness   *ssa.Function
	Workers   int
	Lim       Limits
	Solver    string
	Fallbacks []string
	MaxPaths  int
	Deadline  time.Time
	FPSolver  string // incremental solver used for queries containing floating point ("" = same)
	WantModel bool // sample a model + observations per completed path (for the cross-check)

	mu       sync.Mutex
	cond     *sync.Cond
	work     [][]int64
	busy     int
	stopped  bool
	Results  []*PathResult
	unknowns map[string]int

	transitions int64
	started     int64
	Stats       SolverStats
	TimedOut    bool
	PathCapHit  bool
	ViolCapHit  bool // stopped early: enough candidate counterexamples are in hand
	violations  int
}

func (ex *Explorer) push(prefix []int64) {
	ex.mu.Lock()
	ex.work = append(ex.work, prefix)
	ex.mu.Unlock()
	ex.cond.Signal()
}

// sampleModel decides whether the next path gets a solver model for the native
// cross-check: the first 40 paths, then a thinning fraction (model extraction of thousands
// of input bytes costs more than exploring the path).
func (ex *Explorer) sampleModel() bool {
	n := atomic.AddInt64(&ex.started, 1)
	if n <= 40 {
		return true
	}
	return n%(1+n/25) == 0
}

func (ex *Explorer) addTransitions(n int) { atomic.AddInt64(&ex.transitions, int64(n)) }

func (ex *Explorer) noteUnknown(msg string) {
	ex.mu.Lock()
	if ex.unknowns == nil {
		ex.unknowns = map[string]int{}
	}
	if len(msg) > 200 {
		msg = msg[:200]
	}
	ex.unknowns[msg]++
	ex.mu.Unlock()
}

func (ex *Explorer) Unknowns() map[string]int { return ex.unknowns }
func (ex *Explorer) Transitions() int64      { return atomic.LoadInt64(&ex.transitions) }

func (ex *Explorer) take() ([]int64, bool) {
	ex.mu.Lock()
	defer ex.mu.Unlock()
	for {
		if ex.stopped {
			return nil, false
		}
		if len(ex.work) > 0 {
			p := ex.work[len(ex.work)-1]
			ex.work = ex.work[:len(ex.work)-1]
			ex.busy++
			return p, true
		}
		if ex.busy == 0 {
			ex.stopped = true
			ex.cond.Broadcast()
			return nil, false
		}
		ex.cond.Wait()
	}
}

func (ex *Explorer) done(r *PathResult) {
	ex.mu.Lock()
	ex.busy--
	ex.Results = append(ex.Results, r)
	if ex.MaxPaths > 0 && len(ex.Results) >= ex.MaxPaths && (len(ex.work) > 0 || ex.busy > 0) {
		ex.PathCapHit = true
		ex.stopped = true
	}
	if !ex.Deadline.IsZero() && time.Now().After(ex.Deadline) && (len(ex.work) > 0 || ex.busy > 0) {
		ex.TimedOut = true
		ex.stopped = true
	}
	for _, ob := range r.Obligations {
		if (ob.Verdict == "sat" || ob.Verdict == "ground-false") && !strings.HasPrefix(ob.Label, "inv:") {
			ex.violations++
		}
	}
	if ex.violations >= 40 && !ex.stopped && (len(ex.work) > 0 || ex.busy > 0) {
		ex.ViolCapHit = true
		ex.stopped = true
	}
	ex.mu.Unlock()
	ex.cond.Broadcast()
}

// Run explores all paths of the harness.
func (ex *Explorer) Run() error {
	ex.cond = sync.NewCond(&ex.mu)
	ex.work = [][]int64{{}}
	if ex.Workers <= 0 {
		ex.Workers = 1
	}
	if ex.Solver == "" {
		ex.Solver = "z3"
	}
	var wg sync.WaitGroup
	errs := make(chan error, ex.Workers)
	for w := 0; w < ex.Workers; w++ {
		wg.Add(1)
		go func() {
			defer wg.Done()
			solver, err := NewSolver(ex.Solver, ex.Lim.QueryTimeout)
			if err != nil {
				errs <- err
				ex.mu.Lock()
				ex.stopped = true
				ex.mu.Unlock()
				ex.cond.Broadcast()
				return
			}
			defer solver.Close()
			var m *Machine
			defer func() {
				if m != nil && m.fpSolver != nil {
					ex.mu.Lock()
					ex.Stats.Queries += m.fpSolver.Stats.Queries
					ex.Stats.Sat += m.fpSolver.Stats.Sat
					ex.Stats.Unsat += m.fpSolver.Stats.Unsat
					ex.Stats.Unknown += m.fpSolver.Stats.Unknown
					ex.Stats.Time += m.fpSolver.Stats.Time
					ex.mu.Unlock()
					m.fpSolver.Close()
				}
			}()
			m = &Machine{P: ex.P, tt: NewTermTable(), solver: solver, lim: ex.Lim, ex: ex, fnInfos: map[*ssa.Function]*fnInfo{}}
			for {
				prefix, ok := ex.take()
				if !ok {
					break
				}
				pt0 := time.Now()
				st0 := solver.Stats.Time
				r := m.RunPath(ex.Harness, prefix, ex.WantModel && ex.sampleModel())
				if d := time.Since(pt0); d > 3*time.Second && os.Getenv("HCSYM_DEBUG") != "" {
					fmt.Fprintf(os.Stderr, "slow path %.1fs (solver %.1fs) steps=%d end=%s decisions=%v facts=%v\n", d.Seconds(), (solver.Stats.Time - st0).Seconds(), r.Steps, r.End, r.Decisions, r.Facts)
				}
				ex.done(r)
				// keep the term table from growing without bound
				if m.tt.nextID > 3000000 {
					m.tt = NewTermTable()
					solver.restart()
					if m.fpSolver != nil {
						m.fpSolver.restart()
					}
				}
			}
			ex.mu.Lock()
			ex.Stats.Queries += solver.Stats.Queries
			ex.Stats.Sat += solver.Stats.Sat
			ex.Stats.Unsat += solver.Stats.Unsat
			ex.Stats.Unknown += solver.Stats.Unknown
			ex.Stats.Errors += solver.Stats.Errors
			ex.Stats.Time += solver.Stats.Time
			ex.Stats.Fallbacks += solver.Stats.Fallbacks
			ex.Stats.Restarts += solver.Stats.Restarts
			ex.mu.Unlock()
		}()
	}
	wg.Wait()
	select {
	case err := <-errs:
		return err
	default:
	}
	sort.Slice(ex.Results, func(i, j int) bool { return lessDecs(ex.Results[i].Decisions, ex.Results[j].Decisions) })
	return nil
}

func lessDecs(a, b []int64) bool {
	for i := 0; i < len(a) && i < len(b); i++ {
		if a[i] != b[i] {
			return a[i] < b[i]
		}
	}
	return len(a) < len(b)
}

// RunPath executes the harness once along the given decision prefix.
func (m *Machine) RunPath(h *ssa.Function, prefix []int64, wantModel bool) (res *PathResult) {
	m.solver.MaybeRestart()
	if m.fpSolver != nil {
		m.fpSolver.MaybeRestart()
	}
	m.resetPath(prefix)
	m.harness = h.Name()
	res = &PathResult{End: "ok"}
	defer func() {
		r := recover()
		if m.thr != nil {
			m.thr.killAll()
		}
		if r != nil {
			switch r := r.(type) {
			case pathAbort:
				res.End = r.kind.String()
				res.Msg = r.msg
			case targetPanic:
				res.End = "panic"
				res.Msg = m.panicString(r) + " @ " + m.lastPanicAt
			default:
				res.End = "engine-error"
				res.Msg = fmt.Sprint(r) + " @ " + m.where() + "\n" + shortStack()
			}
		}
		res.Decisions = append([]int64(nil), m.decisions...)
		res.Obligations = m.obls
		res.Reached = m.reached
		res.Steps = m.steps
		res.Facts = m.facts
		res.Nondet = m.nondet
		res.Trace = m.trace
		if m.unknownBr > 0 && res.End == "ok" {
			res.Msg = fmt.Sprintf("%d branch decisions with solver unknown (both sides explored)", m.unknownBr)
		}
		if wantModel && res.End == "ok" {
			func() {
				defer func() { recover() }()
				if model, ok := m.model(); ok {
					for k, v := range m.fixedVals() {
						model[k] = v
					}
					res.Model = model
					res.Observed = map[string][]int64{}
					memo := map[*Term]uint64{}
					for _, o := range m.observes {
						vals := make([]int64, len(o.vals))
						for i, t := range o.vals {
							if v, ok := m.tt.Eval(t, model, memo); ok {
								vals[i] = int64(v)
							} else {
								vals[i] = -1
							}
						}
						res.Observed[o.name] = vals
					}
				}
			}()
		}
	}()
	m.callSSA(nil, h, nil, nil)
	return res
}

func shortStack() string {
	buf := make([]byte, 1<<14)
	n := runtimeStack(buf)
	lines := strings.Split(string(buf[:n]), "\n")
	var keep []string
	for _, l := range lines {
		if strings.Contains(l, "hcverif/sym") && strings.Contains(l, ".go:") {
			keep = append(keep, strings.TrimSpace(l))
		}
		if len(keep) > 14 {
			break
		}
	}
	return strings.Join(keep, "\n")
}
