package sym

// value.go: run-time values of the symbolic interpreter.
//
//   bool, integers, floats        *Term (Bool / BV(w) / FP(w))
//   string                         string (all bytes concrete) or symString
//   pointer                        *value ; symbolic element pointer: *symPtr
//   slice                          []value (Go slice sharing its backing array)
//   array, struct, tuple           array, structure, tuple (copied on load/store)
//   interface                      iface{t,v}; nil interface has t == nil
//   func                           *ssa.Function, *closure, *ssa.Builtin, *native, nilFunc{}
//   map                            *mapV (nil map: (*mapV)(nil))
//   chan                           *chanV (minimal)

import (
	"fmt"
	"go/types"
	"strings"

	"golang.org/x/tools/go/ssa"
)

type value interface{}

type array []value
type structure []value
type tuple []value

type iface struct {
	t types.Type
	v value
}

type closure struct {
	fn  *ssa.Function
	env []value
}

type nilFunc struct{}

type symString []*Term

// symPtr addresses base[idx] for a symbolic idx (scalar element types only).
type symPtr struct {
	base []value
	idx  *Term // BV64
}

type chanV struct {
	buf    []value
	cap    int
	closed bool
	sent   int // deposits so far (rendezvous tickets of unbuffered sends)
	recvd  int // takes so far
}

type native struct {
	name string
	fn   func(fr *frame, args []value) value
}

type mapEntry struct {
	k, v    value
	deleted bool
}

type mapV struct {
	keyT    types.Type
	entries []*mapEntry
	fast    map[interface{}]*mapEntry // concrete comparable keys
}

// opaque is a host object carried through the interpreter (used by intrinsics).
type opaque struct {
	kind string
	data interface{}
}

func (m *Machine) zero(t types.Type) value {
	switch t := t.Underlying().(type) {
	case *types.Basic:
		switch {
		case t.Kind() == types.UntypedNil:
			return iface{}
		case t.Info()&types.IsBoolean != 0:
			return m.tt.False
		case t.Info()&types.IsInteger != 0:
			return m.tt.Const(BV(intWidth(t)), 0)
		case t.Info()&types.IsFloat != 0:
			return m.tt.FConst(FP(floatWidth(t)), 0)
		case t.Info()&types.IsString != 0:
			return ""
		case t.Kind() == types.UnsafePointer:
			return (*value)(nil)
		case t.Info()&types.IsComplex != 0:
			return structure{m.tt.FConst(FP(64), 0), m.tt.FConst(FP(64), 0)}
		}
	case *types.Pointer:
		return (*value)(nil)
	case *types.Slice:
		return []value(nil)
	case *types.Array:
		a := make(array, t.Len())
		for i := range a {
			a[i] = m.zero(t.Elem())
		}
		return a
	case *types.Struct:
		s := make(structure, t.NumFields())
		for i := range s {
			s[i] = m.zero(t.Field(i).Type())
		}
		return s
	case *types.Interface:
		return iface{}
	case *types.Map:
		return (*mapV)(nil)
	case *types.Signature:
		return nilFunc{}
	case *types.Chan:
		return (*chanV)(nil)
	case *types.Tuple:
		if t.Len() == 1 {
			return m.zero(t.At(0).Type())
		}
		s := make(tuple, t.Len())
		for i := range s {
			s[i] = m.zero(t.At(i).Type())
		}
		return s
	}
	panic(m.unsupported("zero value of type %v", t))
}

func intWidth(t *types.Basic) int {
	switch t.Kind() {
	case types.Int8, types.Uint8:
		return 8
	case types.Int16, types.Uint16:
		return 16
	case types.Int32, types.Uint32:
		return 32
	case types.UntypedRune:
		return 32
	}
	return 64
}

func floatWidth(t *types.Basic) int {
	if t.Kind() == types.Float32 {
		return 32
	}
	return 64
}

func isSigned(t types.Type) bool {
	b, ok := t.Underlying().(*types.Basic)
	return ok && b.Info()&types.IsInteger != 0 && b.Info()&types.IsUnsigned == 0
}

// copyVal copies aggregates (arrays and structs have value semantics).
func copyVal(v value) value {
	switch v := v.(type) {
	case array:
		a := make(array, len(v))
		for i := range v {
			a[i] = copyVal(v[i])
		}
		return a
	case structure:
		s := make(structure, len(v))
		for i := range v {
			s[i] = copyVal(v[i])
		}
		return s
	case tuple:
		break
	}
	return v
}

// ---- strings ----

func (m *Machine) strBytes(v value) []*Term {
	switch s := v.(type) {
	case string:
		out := make([]*Term, len(s))
		for i := 0; i < len(s); i++ {
			out[i] = m.tt.Const(BV(8), uint64(s[i]))
		}
		return out
	case symString:
		return s
	}
	panic(m.unsupported("not a string: %T", v))
}

func strLen(v value) int {
	switch s := v.(type) {
	case string:
		return len(s)
	case symString:
		return len(s)
	}
	panic(fmt.Sprintf("strLen: %T", v))
}

func (m *Machine) mkString(b []*Term) value {
	all := true
	for _, t := range b {
		if !t.IsConst() {
			all = false
			break
		}
	}
	if all {
		var sb strings.Builder
		sb.Grow(len(b))
		for _, t := range b {
			sb.WriteByte(byte(t.Val))
		}
		return sb.String()
	}
	return symString(append([]*Term(nil), b...))
}

// strEq returns the Bool term for equality of two strings.
func (m *Machine) strEq(x, y value) *Term {
	if xs, ok := x.(string); ok {
		if ys, ok := y.(string); ok {
			return m.tt.Bool(xs == ys)
		}
	}
	if strLen(x) != strLen(y) {
		return m.tt.False
	}
	xb, yb := m.strBytes(x), m.strBytes(y)
	return m.bytesEqTerm(xb, yb)
}

func (m *Machine) bytesEqTerm(xb, yb []*Term) *Term {
	var cs []*Term
	for i := range xb {
		e := m.tt.Eq(xb[i], yb[i])
		if e.IsFalse() {
			return m.tt.False
		}
		if !e.IsTrue() {
			cs = append(cs, e)
		}
	}
	return m.tt.AndN(cs)
}

// ---- equality ----

// equals implements Go's == on values of static type t, as a Bool term.
func (m *Machine) equals(t types.Type, x, y value) *Term {
	switch ut := t.Underlying().(type) {
	case *types.Basic:
		switch {
		case ut.Info()&types.IsString != 0:
			return m.strEq(x, y)
		case ut.Info()&types.IsFloat != 0:
			return m.tt.FBin(OpFEq, x.(*Term), y.(*Term))
		case ut.Kind() == types.UnsafePointer:
			return m.tt.Bool(ptrEq(x, y))
		case ut.Kind() == types.UntypedNil:
			return m.tt.True
		case ut.Info()&types.IsComplex != 0:
			xs, ys := x.(structure), y.(structure)
			return m.tt.And(m.tt.FBin(OpFEq, xs[0].(*Term), ys[0].(*Term)), m.tt.FBin(OpFEq, xs[1].(*Term), ys[1].(*Term)))
		}
		return m.tt.Eq(x.(*Term), y.(*Term))
	case *types.Pointer:
		return m.tt.Bool(ptrEq(x, y))
	case *types.Interface:
		xi, yi := x.(iface), y.(iface)
		if xi.t == nil || yi.t == nil {
			return m.tt.Bool(xi.t == nil && yi.t == nil)
		}
		if !types.Identical(xi.t, yi.t) {
			return m.tt.False
		}
		if !types.Comparable(xi.t) {
			panic(m.runtimePanic("comparing uncomparable type " + xi.t.String()))
		}
		return m.equals(xi.t, xi.v, yi.v)
	case *types.Struct:
		xs, ys := x.(structure), y.(structure)
		var cs []*Term
		for i := range xs {
			if ut.Field(i).Name() == "_" {
				continue
			}
			cs = append(cs, m.equals(ut.Field(i).Type(), xs[i], ys[i]))
		}
		return m.tt.AndN(cs)
	case *types.Array:
		xs, ys := x.(array), y.(array)
		var cs []*Term
		for i := range xs {
			cs = append(cs, m.equals(ut.Elem(), xs[i], ys[i]))
		}
		return m.tt.AndN(cs)
	case *types.Map:
		return m.tt.Bool(x.(*mapV) == y.(*mapV))
	case *types.Chan:
		return m.tt.Bool(x.(*chanV) == y.(*chanV))
	case *types.Slice:
		// only comparison with nil is legal
		xs, ys := x.([]value), y.([]value)
		return m.tt.Bool(xs == nil && ys == nil)
	case *types.Signature:
		_, xn := x.(nilFunc)
		_, yn := y.(nilFunc)
		return m.tt.Bool(xn && yn)
	}
	panic(m.unsupported("equality on type %v", t))
}

func ptrEq(x, y value) bool {
	xp, ok1 := x.(*value)
	yp, ok2 := y.(*value)
	if ok1 && ok2 {
		return xp == yp
	}
	return x == y
}

// ---- maps ----

// fastKey returns a hashable Go key for fully concrete keys, ok=false otherwise.
func fastKey(k value) (interface{}, bool) {
	switch k := k.(type) {
	case *Term:
		if k.IsConst() {
			return constKey{k.Sort, k.Val}, true
		}
		return nil, false
	case string:
		return k, true
	case *value:
		return k, true
	case iface:
		if k.t == nil {
			return "<nil-iface>", true
		}
		inner, ok := fastKey(k.v)
		if !ok {
			return nil, false
		}
		return [2]interface{}{k.t.String(), inner}, true
	case array:
		s := make([]interface{}, 0, len(k))
		for _, e := range k {
			f, ok := fastKey(e)
			if !ok {
				return nil, false
			}
			s = append(s, f)
		}
		return fmt.Sprint(s...), true
	case structure:
		s := make([]interface{}, 0, len(k))
		for _, e := range k {
			f, ok := fastKey(e)
			if !ok {
				return nil, false
			}
			s = append(s, f)
		}
		return "S" + fmt.Sprint(s...), true
	case *mapV, *chanV:
		return k, true
	}
	return nil, false
}

func (m *Machine) newMap(keyT types.Type) *mapV {
	return &mapV{keyT: keyT, fast: map[interface{}]*mapEntry{}}
}

func (mp *mapV) live() []*mapEntry {
	out := make([]*mapEntry, 0, len(mp.entries))
	for _, e := range mp.entries {
		if !e.deleted {
			out = append(out, e)
		}
	}
	return out
}

func (mp *mapV) length() int {
	n := 0
	for _, e := range mp.entries {
		if !e.deleted {
			n++
		}
	}
	return n
}

// find locates the entry whose key equals k, forking on symbolic comparisons.
func (m *Machine) mapFind(mp *mapV, k value) *mapEntry {
	if mp == nil {
		return nil
	}
	if ik, ok := k.(iface); ok && ik.t != nil && !types.Comparable(ik.t) {
		panic(m.runtimePanic("hash of unhashable type " + ik.t.String()))
	}
	fk, concrete := fastKey(k)
	if concrete {
		if e, ok := mp.fast[fk]; ok && !e.deleted {
			return e
		}
	}
	for _, e := range mp.entries {
		if e.deleted {
			continue
		}
		if concrete {
			if _, ok := fastKey(e.k); ok {
				continue // different concrete key (fast map would have found it)
			}
		}
		c := m.equals(mp.keyT, e.k, k)
		if m.branch(c, "mapkey") {
			return e
		}
	}
	return nil
}

func (m *Machine) mapSet(mp *mapV, k, v value) {
	if mp == nil {
		panic(m.runtimePanic("assignment to entry in nil map"))
	}
	if e := m.mapFind(mp, k); e != nil {
		e.v = v
		return
	}
	e := &mapEntry{k: k, v: v}
	mp.entries = append(mp.entries, e)
	if fk, ok := fastKey(k); ok {
		mp.fast[fk] = e
	}
}

func (m *Machine) mapDelete(mp *mapV, k value) {
	if e := m.mapFind(mp, k); e != nil {
		e.deleted = true
		if fk, ok := fastKey(e.k); ok {
			delete(mp.fast, fk)
		}
	}
}

// ---- misc helpers ----

func (m *Machine) concreteInt(v value, what string) int64 {
	t := v.(*Term)
	if t.IsConst() {
		return t.SVal()
	}
	return m.concretize(t, what)
}

func (m *Machine) intConst(n int64) *Term { return m.tt.Const(BV(64), uint64(n)) }

func typeString(t types.Type) string {
	if t == nil {
		return "<nil>"
	}
	return t.String()
}
