package sym

import (
	"encoding/json"
	"fmt"
	"os"
	"path/filepath"
	"sort"
	"time"
)

// propMeta carries the per-property static description that goes into the evidence
// (level, assumptions, bounds); filled by harness-side JSON files harness/<prop>/meta.json.
type propMeta struct {
	Level       string   `json:"level"`
	Assumptions []string `json:"assumptions"`
	Bounds      struct {
		Quick    []string `json:"quick"`
		Thorough []string `json:"thorough"`
	} `json:"bounds"`
	Functions []string `json:"functions_encoded"`
	Outside   []string `json:"outside_claim"`
	Stubs     []string `json:"stubs"`
}

func writeEvidence(o CheckOptions, seed int64, reports []*HarnessReport, samples []interface{}, cex []*cexRecord,
	wall time.Duration, inconclusive []string, P *Program) {
	var meta propMeta
	if b, err := os.ReadFile(filepath.Join(o.VerifDir, "harness", o.Prop, "meta.json")); err == nil {
		json.Unmarshal(b, &meta)
	}
	level := meta.Level
	if level == "" {
		level = "model_checking"
	}
	states, obligations, discharged, cross, nontrivial, ground := 0, 0, 0, 0, 0, 0
	var transitions int64
	queries, qsat, qunsat, qunk := 0, 0, 0, 0
	solverS := 0.0
	var steps int64
	for _, r := range reports {
		states += r.Paths
		transitions += r.Transitions
		obligations += r.Obligations
		discharged += r.Discharged
		ground += r.GroundTrue
		cross += r.CrossChecked
		queries += r.Queries
		qsat += r.QuerySat
		qunsat += r.QueryUnsat
		qunk += r.QueryUnknown
		solverS += r.SolverSeconds
		steps += r.Steps
	}
	nontrivial = obligations - ground
	if transitions < 1 {
		transitions = int64(states)
	}
	bounds := meta.Bounds.Quick
	if o.Tier == "thorough" {
		bounds = meta.Bounds.Thorough
	}
	violations := 0
	var cexOut []interface{}
	for _, c := range cex {
		if c.Known == "" && c.Confirmed {
			violations++
		}
		cexOut = append(cexOut, map[string]interface{}{"harness": c.Harness, "assert": c.Label, "facts": c.Facts,
			"confirmed_natively": c.Confirmed, "known_finding": c.Known})
	}
	if len(samples) == 0 {
		samples = []interface{}{"no obligation was generated (see inconclusive)"}
	}
	var files []string
	if P != nil {
		for f, h := range P.FileHashes {
			files = append(files, f+"#"+h)
		}
		sort.Strings(files)
	}
	cov := map[string]interface{}{
		"states":                        states,
		"transitions":                   transitions,
		"traces_validated_against_impl": cross,
		"samples":                       samples,
		"obligations":                   obligations,
		"discharged":                    discharged,
		"evaluations":                   obligations,
		"distinct_nontrivial":           nontrivial,
		"rule": "states = feasible execution paths of the harness through the real SSA of /repo (one per distinct vector of solver-decided branch/shape decisions); " +
			"an obligation is one Assert on one path, decided by the SMT solver for ALL values of the free symbolic inputs of that path; " +
			"non-trivial = obligation over symbolic inputs: either the solver was queried (condition contains free variables) or term normalisation reduced a condition over symbolic operands to true (e.g. output byte i IS input byte j as a term); obligations over constants only (ground) are not counted; " +
			"traces_validated_against_impl = explored paths whose solver model was re-run natively (go test -overlay on the real code) with identical assert/reach/observation results",
		"ground_obligations":     ground,
		"harnesses":              reports,
		"bounds":                 bounds,
		"functions_encoded":      meta.Functions,
		"stubs_and_models":       meta.Stubs,
		"outside_claim":          meta.Outside,
		"queries":                map[string]int{"total": queries, "sat": qsat, "unsat": qunsat, "unknown": qunk},
		"solver_time_s":          solverS,
		"ssa_instructions":       steps,
		"solvers":                []string{o.Solver + " (incremental, check-sat-assuming)", "fallback one-shot: cvc5 1.0, z3-new 5.1.0"},
		"inconclusive":           inconclusive,
		"counterexamples":        cexOut,
		"hc_source_files_hashed": len(files),
		"exhaustive":             false,
	}
	if P != nil {
		cov["load_s"] = P.LoadTime.Seconds()
		cov["ssa_build_s"] = P.BuildTime.Seconds()
	}
	if level == "other" {
		cov["explanation"] = "see rule; ground obligations over a finite catalog executed by the symbolic engine"
	}
	ev := map[string]interface{}{
		"property_id": o.Prop,
		"tier":        o.Tier,
		"seed":        seed,
		"level":       level,
		"coverage":    cov,
		"assumptions": meta.Assumptions,
		"wall_s":      wall.Seconds(),
		"violations":  violations,
	}
	if meta.Assumptions == nil {
		ev["assumptions"] = []string{}
	}
	b, _ := json.MarshalIndent(ev, "", " ")
	dir := evidenceDir(o.VerifDir)
	os.MkdirAll(dir, 0o755)
	if err := os.WriteFile(filepath.Join(dir, o.Prop+".json"), b, 0o644); err != nil {
		fmt.Fprintln(os.Stderr, "evidence:", err)
	}
}

// evidenceDir is /verif/evidence, or the directory named by HCSYM_EVIDENCE_DIR: the tools that
// run the checks against deliberately changed trees (seeds, benign variants) point it at a
// scratch directory so that the evidence of the unchanged tree is not overwritten.
func evidenceDir(verifDir string) string {
	if d := os.Getenv("HCSYM_EVIDENCE_DIR"); d != "" {
		return d
	}
	return filepath.Join(verifDir, "evidence")
}
