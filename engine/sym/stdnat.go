package sym

// stdnat.go: engine-side versions of a few standard-library functions whose real bodies go
// through reflectlite or assembly: errors.As, sort.Slice / sort.SliceStable, math.Max/Min/
// Abs/Floor/Ceil/Trunc/Sqrt. They follow the documented semantics.

import (
	"go/types"
	"math"
)

func registerStdNatives(P *Program, reg func(string, func(fr *frame, args []value) value)) {
	// errors.As(err, target any) bool
	reg("errors.As", func(fr *frame, a []value) value {
		m := fr.m
		tgt, _ := a[1].(iface)
		if tgt.t == nil {
			panic(m.runtimePanic("errors: target cannot be nil"))
		}
		pt, ok := tgt.t.Underlying().(*types.Pointer)
		if !ok {
			panic(m.runtimePanic("errors: target must be a non-nil pointer"))
		}
		want := pt.Elem()
		err, _ := a[0].(iface)
		for steps := 0; err.t != nil && steps < 64; steps++ {
			match := false
			if wi, isI := want.Underlying().(*types.Interface); isI {
				match = m.P.implements(err.t, wi)
			} else {
				match = types.Identical(err.t, want)
			}
			if match {
				var v value = err
				if _, isI := want.Underlying().(*types.Interface); !isI {
					v = copyVal(err.v)
				}
				m.store(tgt.v, v)
				return m.tt.True
			}
			ms := m.P.Prog.MethodSets.MethodSet(err.t)
			var unwrap *types.Selection
			for i := 0; i < ms.Len(); i++ {
				if ms.At(i).Obj().Name() == "Unwrap" {
					unwrap = ms.At(i)
				}
				if ms.At(i).Obj().Name() == "As" {
					panic(m.unsupported("errors.As on a type with an As method"))
				}
			}
			if unwrap == nil {
				return m.tt.False
			}
			sig := unwrap.Type().(*types.Signature)
			if sig.Results().Len() != 1 {
				return m.tt.False
			}
			if _, isSlice := sig.Results().At(0).Type().Underlying().(*types.Slice); isSlice {
				panic(m.unsupported("errors.As over Unwrap() []error"))
			}
			next := m.callSSA(fr, m.P.Prog.MethodValue(unwrap), []value{err.v}, nil)
			err, _ = next.(iface)
		}
		return m.tt.False
	})

	// sort.Slice(x any, less func(i, j int) bool): insertion sort (stable; any sorting
	// algorithm satisfies sort.Slice's contract). A symbolic comparison result forks.
	sortSlice := func(fr *frame, a []value) value {
		m := fr.m
		xs, ok := a[0].(iface)
		if !ok || xs.t == nil {
			panic(m.runtimePanic("sort.Slice of nil"))
		}
		elems, ok := xs.v.([]value)
		if !ok {
			panic(m.unsupported("sort.Slice of %T", xs.v))
		}
		less := a[1]
		for i := 1; i < len(elems); i++ {
			for j := i; j > 0; j-- {
				r := m.call(fr, less, []value{m.intConst(int64(j)), m.intConst(int64(j - 1))})
				if !m.branch(r.(*Term), "sort.Slice less") {
					break
				}
				elems[j], elems[j-1] = elems[j-1], elems[j]
			}
		}
		return nil
	}
	reg("sort.Slice", sortSlice)
	reg("sort.SliceStable", sortSlice)

	// math: concrete arguments are computed with the host's math package; Max/Min/Abs also
	// as terms over symbolic arguments
	un := func(name string, f func(float64) float64, sym func(m *Machine, x *Term) *Term) {
		reg("math."+name, func(fr *frame, a []value) value {
			m := fr.m
			x := a[0].(*Term)
			if x.IsConst() {
				return m.tt.FConst(x.Sort, f(fpConstVal(x)))
			}
			if sym != nil {
				return sym(m, x)
			}
			panic(m.unsupported("math.%s of a symbolic value", name))
		})
	}
	un("Floor", math.Floor, nil)
	un("Ceil", math.Ceil, nil)
	un("Trunc", math.Trunc, nil)
	un("Sqrt", math.Sqrt, nil)
	un("Abs", math.Abs, func(m *Machine, x *Term) *Term {
		return m.tt.Ite(m.tt.FBin(OpFLt, x, m.tt.FConst(x.Sort, 0)), m.tt.FNeg(x), x)
	})
	bin := func(name string, f func(a, b float64) float64, pickFirst func(m *Machine, x, y *Term) *Term) {
		reg("math."+name, func(fr *frame, a []value) value {
			m := fr.m
			x, y := a[0].(*Term), a[1].(*Term)
			if x.IsConst() && y.IsConst() {
				return m.tt.FConst(x.Sort, f(fpConstVal(x), fpConstVal(y)))
			}
			tt := m.tt
			// NaN if either is NaN; otherwise the larger / smaller (signed zeros are not told apart)
			nan := tt.Or(tt.FIsNaN(x), tt.FIsNaN(y))
			return tt.Ite(nan, tt.FConst(x.Sort, math.NaN()), tt.Ite(pickFirst(m, x, y), x, y))
		})
	}
	bin("Max", math.Max, func(m *Machine, x, y *Term) *Term { return m.tt.FBin(OpFLe, y, x) })
	bin("Min", math.Min, func(m *Machine, x, y *Term) *Term { return m.tt.FBin(OpFLe, x, y) })
}
