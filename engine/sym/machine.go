package sym

// machine.go: per-worker interpreter state, path condition, decisions, aborts.

import (
	"fmt"
	"go/types"
	"os"
	"sort"
	"strings"
	"time"

	"golang.org/x/tools/go/ssa"
)

type abortKind int

const (
	abortInfeasible  abortKind = iota // Assume(false) or no feasible continuation
	abortUnsupported                  // construct the engine does not model
	abortBound                        // budget / cap exceeded (bound failure)
	abortUnknown                      // solver could not decide something essential
	abortExit                         // harness ended the path deliberately
)

func (k abortKind) String() string {
	return [...]string{"infeasible", "unsupported", "bound", "unknown", "exit"}[k]
}

type pathAbort struct {
	kind abortKind
	msg  string
}

// targetPanic is a Go panic raised by the interpreted program.
type targetPanic struct {
	v value
}

type Limits struct {
	MaxSteps     int64
	MaxConcrete  int // cap on values enumerated by concretize
	QueryTimeout time.Duration
}

// Obligation is one Assert evaluated on one path.
type Obligation struct {
	Harness  string            `json:"harness"`
	Label    string            `json:"label"`
	Verdict  string            `json:"verdict"` // "ground-true", "unsat" (holds), "sat" (violated), "unknown", "ground-false"
	FreeVars int               `json:"free_vars"`
	PathLen  int               `json:"pc_len"`
	Millis   float64           `json:"ms"`
	Facts    map[string]string `json:"facts,omitempty"`
	Model    map[string]uint64 `json:"-"`
	Decs     []int64           `json:"-"`
	Nondet   []NondetVar       `json:"-"`
	Trace    []string          `json:"-"`
}

type NondetVar struct {
	Name string
	Kind string // "u8","u16","u32","u64","bool","f64","choice","concrete"
}

type PathResult struct {
	Decisions   []int64
	End         string // "ok", "infeasible", "unsupported", "bound", "unknown", "panic", "exit"
	Msg         string
	Obligations []*Obligation
	Reached     []string
	Steps       int64
	Facts       map[string]string
	Model       map[string]uint64 // sample model of the final PC (when requested)
	Nondet      []NondetVar
	Observed    map[string][]int64 // Observe() values evaluated under Model (-1 = not evaluable)
	Trace       []string
}

type Machine struct {
	P      *Program
	tt     *TermTable
	solver *Solver
	lim    Limits
	ex     *Explorer

	// per path
	globals     map[*ssa.Global]*value
	initDone    map[*ssa.Package]bool
	pc          []*Term
	pcSet       map[*Term]bool
	prefix      []int64
	pos         int
	decisions   []int64
	steps       int64
	nondet      []NondetVar
	nondetT     map[string]*Term
	facts       map[string]string
	reached     []string
	obls        []*Obligation
	harness     string
	forbid      map[string]string
	callCount   map[string]int
	observes    []observe
	trace       []string
	ufRows      map[string][]*ufRow
	makeCap     int
	truncEnd    map[*value]bool
	mapOrder    bool
	fresh       int
	depth       int
	models      map[string]interface{} // per-path state of Go-side intrinsics
	fnInfos     map[*ssa.Function]*fnInfo
	unknownBr   int
	foldMark    int
	oneShotKind string
	lastPanicAt string
	speculative int
	pendingSym  []*Term
	noMerge     bool
	fpSolver    *Solver
	lastSolver  *Solver
	thr         *threads
	curFrame    *frame
}

type observe struct {
	name string
	vals []*Term
}

type ufRow struct {
	args [][]*Term
	res  []*Term
}

func (m *Machine) unsupported(format string, args ...interface{}) pathAbort {
	msg := fmt.Sprintf(format, args...)
	if m.curFrame != nil {
		msg += " @ " + m.where()
	}
	return pathAbort{abortUnsupported, msg}
}

func (m *Machine) where() string {
	var parts []string
	for fr, n := m.curFrame, 0; fr != nil && n < 8; fr, n = fr.caller, n+1 {
		parts = append(parts, fr.fn.String())
	}
	return strings.Join(parts, " < ")
}

func (m *Machine) boundFail(format string, args ...interface{}) pathAbort {
	return pathAbort{abortBound, fmt.Sprintf(format, args...) + " @ " + m.where()}
}

// runtimePanic builds the targetPanic for a Go run-time error.
func (m *Machine) runtimePanic(msg string) targetPanic {
	m.lastPanicAt = m.where()
	return targetPanic{iface{t: m.P.runtimeErrorT, v: "runtime error: " + msg}}
}

func (m *Machine) resetPath(prefix []int64) {
	m.globals = map[*ssa.Global]*value{}
	m.initDone = map[*ssa.Package]bool{}
	m.pc = m.pc[:0]
	m.pcSet = map[*Term]bool{}
	m.prefix = prefix
	m.pos = 0
	m.decisions = nil
	m.steps = 0
	m.nondet = nil
	m.nondetT = map[string]*Term{}
	m.facts = map[string]string{}
	m.reached = nil
	m.obls = nil
	m.forbid = map[string]string{}
	m.callCount = map[string]int{}
	m.observes = nil
	m.trace = nil
	m.ufRows = map[string][]*ufRow{}
	m.makeCap = -1
	m.truncEnd = map[*value]bool{}
	m.mapOrder = false
	m.fresh = 0
	m.depth = 0
	m.models = map[string]interface{}{}
	m.unknownBr = 0
	m.foldMark = m.tt.SymFolds
	m.oneShotKind = ""
	m.speculative = 0
	m.thr = nil
	m.curFrame = nil
}

func (m *Machine) addPC(c *Term) {
	if c.IsConst() {
		if c.Val == 0 {
			panic(pathAbort{abortInfeasible, "false added to path condition"})
		}
		return
	}
	if m.pcSet[c] {
		return
	}
	m.pcSet[c] = true
	m.pc = append(m.pc, c)
}

func (m *Machine) check(extra ...*Term) Verdict {
	if m.ex != nil && !m.ex.Deadline.IsZero() && time.Now().After(m.ex.Deadline.Add(20*time.Second)) {
		// the harness deadline passed while this path was still running: give the path up
		// (reported as inconclusive, never as a verdict)
		panic(pathAbort{abortBound, "exploration deadline hit inside a path"})
	}
	lits := make([]*Term, 0, len(m.pc)+len(extra))
	lits = append(lits, m.pc...)
	lits = append(lits, extra...)
	if m.oneShotKind != "" {
		// harness-selected one-shot back end (e.g. cvc5 int-blasting for div/rem kernels)
		t0 := time.Now()
		v, msg, _ := OneShot(m.oneShotKind, m.lim.QueryTimeout, lits)
		m.solver.Stats.Queries++
		m.solver.Stats.Time += time.Since(t0)
		switch v {
		case Sat:
			m.solver.Stats.Sat++
		case Unsat:
			m.solver.Stats.Unsat++
		default:
			m.solver.Stats.Unknown++
			if m.ex != nil {
				m.ex.noteUnknown(m.oneShotKind + ": " + msg)
			}
		}
		if v != Sat {
			return v
		}
		// a model is needed by callers after Sat: fall through to the incremental solver
	}
	sv := m.solver
	if m.ex != nil && m.ex.FPSolver != "" {
		for _, l := range lits {
			if l.FP {
				if m.fpSolver == nil {
					fs, err := NewSolver(m.ex.FPSolver, m.lim.QueryTimeout)
					if err == nil {
						m.fpSolver = fs
					}
				}
				if m.fpSolver != nil {
					sv = m.fpSolver
				}
				break
			}
		}
	}
	m.lastSolver = sv
	v, msg := sv.Check(lits)
	if v == Unknown && m.ex != nil {
		m.ex.noteUnknown(msg)
		// fallback: one-shot with the alternative back ends
		for _, k := range m.ex.Fallbacks {
			m.solver.Stats.Fallbacks++
			v2, _, _ := OneShot(k, m.lim.QueryTimeout, lits)
			if v2 != Unknown {
				return v2
			}
		}
	}
	return v
}

func (m *Machine) nextDecision() (int64, bool) {
	if m.pos < len(m.prefix) {
		d := m.prefix[m.pos]
		m.pos++
		m.decisions = append(m.decisions, d)
		return d, true
	}
	return 0, false
}

func (m *Machine) record(d int64) {
	m.decisions = append(m.decisions, d)
	m.pos++
}

func (m *Machine) pushAlt(d int64) {
	alt := make([]int64, len(m.decisions)+1)
	copy(alt, m.decisions)
	alt[len(m.decisions)] = d
	m.ex.push(alt)
}

// branch decides a symbolic condition, forking the exploration when both sides are feasible.
var branchTrace = os.Getenv("HCSYM_BRANCHES") != ""

func (m *Machine) branch(c *Term, why string) bool {
	if c.IsConst() {
		return c.Val == 1
	}
	if m.pcSet[c] {
		return true
	}
	nc := m.tt.Not(c)
	if m.pcSet[nc] {
		return false
	}
	if m.speculative > 0 {
		panic(specAbort{})
	}
	if d, ok := m.nextDecision(); ok {
		switch d {
		case 1:
			m.addPC(c)
			return true
		case 0:
			m.addPC(nc)
			return false
		case 3: // forced true (implied by the path condition)
			m.pcSet[c] = true
			return true
		case 2:
			m.pcSet[nc] = true
			return false
		}
		panic(fmt.Sprintf("bad branch decision %d (%s)", d, why))
	}
	m.ex.addTransitions(1)
	if branchTrace {
		fmt.Fprintf(os.Stderr, "BRANCH %s @ %s\n", why, m.where())
	}
	vT := m.check(c)
	if vT == Unsat {
		m.record(2)
		m.pcSet[nc] = true
		return false
	}
	vF := m.check(nc)
	if vF == Unsat {
		m.record(3)
		m.pcSet[c] = true
		return true
	}
	if vT == Unknown || vF == Unknown {
		m.unknownBr++
	}
	m.pushAlt(0)
	m.record(1)
	m.addPC(c)
	return true
}

// choice picks one of n alternatives; every alternative is explored.
func (m *Machine) choice(n int, why string) int {
	if m.speculative > 0 && n > 1 {
		panic(specAbort{})
	}
	if n <= 0 {
		panic(pathAbort{abortInfeasible, "choice over empty set: " + why})
	}
	if n == 1 {
		return 0
	}
	if d, ok := m.nextDecision(); ok {
		return int(d)
	}
	m.ex.addTransitions(1)
	for i := n - 1; i >= 1; i-- {
		m.pushAlt(int64(i))
	}
	m.record(0)
	return 0
}

// termValue asks the solver for the value of t in the current model (after Sat).
func (m *Machine) termValue(t *Term) (uint64, bool) {
	s := m.lastSolver
	if s == nil {
		s = m.solver
	}
	s.buf.WriteString("(get-value (" + t.ref() + "))\n")
	if err := s.send(); err != nil {
		return 0, false
	}
	txt, err := s.readSexp()
	if err != nil {
		if os.Getenv("HCSYM_DEBUG") != "" {
			fmt.Fprintln(os.Stderr, "termValue error:", err, "for", t.ref(), t.body())
		}
		return 0, false
	}
	toks := tokenize(txt)
	// ((ref val))
	if len(toks) < 5 {
		return 0, false
	}
	res := map[string]uint64{}
	// rewrite so that parseValues can handle a non-variable ref
	if err := parseValues(txt, res); err != nil {
		return 0, false
	}
	for _, v := range res {
		return v, true
	}
	return 0, false
}

// concretize enumerates the feasible values of t (signed interpretation) and forks over them.
func (m *Machine) concretize(t *Term, why string) int64 {
	if t.IsConst() {
		return t.SVal()
	}
	if m.speculative > 0 {
		panic(specAbort{})
	}
	if d, ok := m.nextDecision(); ok {
		m.addPC(m.tt.Eq(t, m.tt.Const(t.Sort, uint64(d))))
		return d
	}
	m.ex.addTransitions(1)
	var vals []int64
	var excl []*Term
	for {
		m.solver.Define(t)
		if m.fpSolver != nil {
			m.fpSolver.Define(t)
		}
		v := m.check(excl...)
		if v == Unsat {
			break
		}
		if v == Unknown {
			panic(pathAbort{abortUnknown, "solver unknown while concretizing " + why})
		}
		u, ok := m.termValue(t)
		if !ok {
			panic(pathAbort{abortUnknown, "no model value while concretizing " + why})
		}
		c := m.tt.Const(t.Sort, u)
		vals = append(vals, c.SVal())
		excl = append(excl, m.tt.Not(m.tt.Eq(t, c)))
		if len(vals) > m.lim.MaxConcrete {
			panic(m.boundFail("more than %d feasible values while concretizing %s", m.lim.MaxConcrete, why))
		}
	}
	if len(vals) == 0 {
		panic(pathAbort{abortInfeasible, "no feasible value for " + why})
	}
	sort.Slice(vals, func(i, j int) bool { return vals[i] < vals[j] })
	for i := len(vals) - 1; i >= 1; i-- {
		m.pushAlt(vals[i])
	}
	m.record(vals[0])
	m.addPC(m.tt.Eq(t, m.tt.Const(t.Sort, uint64(vals[0]))))
	return vals[0]
}

// concretizeLen handles symbolic lengths for make: exact classes 0..cap and one class ">cap".
// It returns the length to materialise and whether it stands for the ">cap" class.
func (m *Machine) concretizeLen(t *Term, why string) (int64, bool) {
	if t.IsConst() {
		return t.SVal(), false
	}
	if m.makeCap < 0 {
		return m.concretize(t, why), false
	}
	capT := m.tt.Const(t.Sort, uint64(m.makeCap))
	zero := m.tt.Const(t.Sort, 0)
	var cls int64
	if d, ok := m.nextDecision(); ok {
		cls = d
	} else {
		m.ex.addTransitions(1)
		var feas []int64
		if m.check(m.tt.Bin(OpSLt, t, zero)) != Unsat {
			feas = append(feas, -1)
		}
		for v := 0; v <= m.makeCap; v++ {
			if m.check(m.tt.Eq(t, m.tt.Const(t.Sort, uint64(v)))) != Unsat {
				feas = append(feas, int64(v))
			}
		}
		if m.check(m.tt.Bin(OpSLt, capT, t)) != Unsat {
			feas = append(feas, int64(m.makeCap)+1)
		}
		if len(feas) == 0 {
			panic(pathAbort{abortInfeasible, "no feasible length for " + why})
		}
		for i := len(feas) - 1; i >= 1; i-- {
			m.pushAlt(feas[i])
		}
		m.record(feas[0])
		cls = feas[0]
	}
	switch {
	case cls < 0:
		m.addPC(m.tt.Bin(OpSLt, t, zero))
		return -1, false
	case cls > int64(m.makeCap):
		m.addPC(m.tt.Bin(OpSLt, capT, t))
		return cls, true
	default:
		m.addPC(m.tt.Eq(t, m.tt.Const(t.Sort, uint64(cls))))
		return cls, false
	}
}

func (m *Machine) freshName(prefix string) string {
	m.fresh++
	return fmt.Sprintf("%s#%d", prefix, m.fresh)
}

func (m *Machine) newVar(name string, s Sort, kind string) *Term {
	if t, ok := m.nondetT[name]; ok {
		return t
	}
	t := m.tt.Var(name, s)
	m.nondetT[name] = t
	m.nondet = append(m.nondet, NondetVar{name, kind})
	return t
}

// model returns a satisfying assignment of the current PC (plus extra) for all nondet vars.
func (m *Machine) model(extra ...*Term) (map[string]uint64, bool) {
	if m.check(extra...) != Sat {
		return nil, false
	}
	var vars []*Term
	for _, nv := range m.nondet {
		vars = append(vars, m.nondetT[nv.Name])
	}
	ls := m.lastSolver
	if ls == nil {
		ls = m.solver
	}
	vals, err := ls.Values(vars)
	if err == nil && len(vals) > 0 {
		return vals, true
	}
	// the incremental solver has no model (the verdict came from a fall-back back end): ask
	// the fall-back back ends for one
	if m.ex != nil {
		lits := append(append([]*Term{}, m.pc...), extra...)
		for _, k := range m.ex.Fallbacks {
			if v, mv := OneShotModel(k, m.lim.QueryTimeout, lits, vars); v == Sat && mv != nil {
				return mv, true
			}
		}
	}
	if err != nil {
		return nil, false
	}
	return vals, true
}

func typeOfPtrElem(t types.Type) types.Type {
	return t.Underlying().(*types.Pointer).Elem()
}
