package sym

// threads.go: interpreter threads with explicit, solver-independent scheduling.
//
// `go f()` creates an interpreter thread (a host goroutine that runs only when it holds
// the baton). A context switch can happen only at scheduling points: sync.Mutex Lock/
// Unlock, verif.Yield() (harness stubs call it where an I/O operation completes), loads and
// stores of watched struct fields (verif.WatchField), thread start and thread end. At a
// scheduling point the next thread is a decision of the explorer (every alternative is
// explored), bounded by a number of preemptions (switching away from a thread that could
// have continued). Memory is sequentially consistent.

import (
	"fmt"
	"strings"
	"runtime"
	"sync"
)

func runtimeStack(buf []byte) int { return runtime.Stack(buf, false) }

type thread struct {
	id      int
	resume  chan struct{}
	done    bool
	waitFor func() bool // non-nil: the thread is blocked while this returns true
	frame   *frame
	depth   int
	started bool
}

type threadKill struct{}

type threads struct {
	list        []*thread
	cur         *thread
	preemptions int
	maxPreempt  int
	abort       interface{} // pathAbort / targetPanic raised in a non-main thread
	held        map[*value]*thread
	watch       map[string]bool
	schedule    []int
	wg          sync.WaitGroup
}

func (m *Machine) threadsInit() *threads {
	if m.thr == nil {
		main := &thread{id: 0, resume: make(chan struct{}, 1), started: true}
		m.thr = &threads{list: []*thread{main}, cur: main, maxPreempt: 2, held: map[*value]*thread{}, watch: map[string]bool{}}
	}
	return m.thr
}

func (t *threads) runnable(th *thread) bool {
	if th.done {
		return false
	}
	if th.waitFor != nil && th.waitFor() {
		return false
	}
	return true
}

// yield is a scheduling point of the current thread. mustSwitch: the current thread cannot
// continue (blocked or finished).
func (m *Machine) yield(why string) {
	t := m.thr
	if t == nil || len(t.list) < 2 {
		return
	}
	cur := t.cur
	var cands []*thread
	curRunnable := t.runnable(cur)
	if curRunnable {
		cands = append(cands, cur)
	}
	if !curRunnable || t.preemptions < t.maxPreempt {
		for _, th := range t.list {
			if th != cur && t.runnable(th) {
				cands = append(cands, th)
			}
		}
	}
	if len(cands) == 0 {
		if cur.done {
			// every thread finished or is blocked: if some are blocked forever that is a deadlock
			for _, th := range t.list {
				if !th.done {
					panic(pathAbort{abortExit, "deadlock: thread blocked forever on a mutex"})
				}
			}
			return
		}
		panic(pathAbort{abortExit, "deadlock: no runnable thread"})
	}
	k := 0
	if len(cands) > 1 {
		k = m.choice(len(cands), "schedule:"+why)
	}
	next := cands[k]
	t.schedule = append(t.schedule, next.id)
	if next == cur {
		return
	}
	if curRunnable {
		t.preemptions++
	}
	m.switchTo(next)
}

// switchTo hands the baton to next and parks the current thread until it is resumed.
func (m *Machine) switchTo(next *thread) {
	t := m.thr
	cur := t.cur
	cur.frame, cur.depth = m.curFrame, m.depth
	t.cur = next
	m.curFrame, m.depth = next.frame, next.depth
	next.resume <- struct{}{}
	if cur.done {
		return // a finished thread's goroutine simply ends
	}
	<-cur.resume
	// resumed
	if t.abort != nil {
		if cur.id == 0 {
			a := t.abort
			t.abort = nil
			panic(a)
		}
		panic(threadKill{})
	}
	m.curFrame, m.depth = cur.frame, cur.depth
}

func (m *Machine) spawn(fr *frame, fn value, args []value) {
	t := m.threadsInit()
	th := &thread{id: len(t.list), resume: make(chan struct{}, 1)}
	t.list = append(t.list, th)
	m.facts["_schedule"] = "nondet"
	t.wg.Add(1)
	go func() {
		defer t.wg.Done()
		<-th.resume
		if t.abort != nil {
			th.done = true
			return
		}
		th.started = true
		defer func() {
			r := recover()
			th.done = true
			if r != nil {
				if _, kill := r.(threadKill); kill {
					return
				}
				// abort of the whole path: wake the main thread with the reason
				if t.abort == nil {
					t.abort = r
				}
				main := t.list[0]
				t.cur = main
				main.resume <- struct{}{}
				return
			}
			// normal end: pick another thread
			func() {
				defer func() {
					if r := recover(); r != nil {
						if t.abort == nil {
							t.abort = r
						}
						main := t.list[0]
						t.cur = main
						main.resume <- struct{}{}
					}
				}()
				m.yield("thread-end")
			}()
		}()
		m.curFrame, m.depth = nil, 0
		m.call(nil, fn, args)
	}()
	m.yield("spawn")
}

// finish is called when the harness function returns: all threads must be done.
func (t *threads) finish(m *Machine) {
	t.killAll()
}

func (t *threads) killAll() {
	if t.abort == nil {
		t.abort = threadKill{}
	}
	for _, th := range t.list[1:] {
		if !th.done {
			select {
			case th.resume <- struct{}{}:
			default:
			}
		}
	}
	t.wg.Wait()
}

func (m *Machine) mutexOp(fr *frame, name string, mu value) value {
	p := mu.(*value)
	if strings.HasSuffix(name, ".TryLock") || strings.HasSuffix(name, ".TryRLock") {
		// never blocks: true and the lock when it is free, false otherwise
		if m.thr == nil || len(m.thr.list) < 2 {
			held, _ := m.models["mutex"].(map[*value]int)
			if held == nil {
				held = map[*value]int{}
				m.models["mutex"] = held
			}
			if held[p] != 0 {
				return m.tt.False
			}
			held[p] = 1
			return m.tt.True
		}
		t := m.thr
		if held, _ := m.models["mutex"].(map[*value]int); held != nil {
			for k, v := range held {
				if v == 1 && t.held[k] == nil {
					t.held[k] = t.list[0]
				}
			}
			delete(m.models, "mutex")
		}
		m.yield("trylock")
		if t.held[p] != nil {
			return m.tt.False
		}
		t.held[p] = t.cur
		return m.tt.True
	}
	if m.thr == nil || len(m.thr.list) < 2 {
		held, _ := m.models["mutex"].(map[*value]int)
		if held == nil {
			held = map[*value]int{}
			m.models["mutex"] = held
		}
		switch name {
		case "(*sync.Mutex).Lock", "(*sync.RWMutex).Lock":
			if held[p] != 0 {
				panic(pathAbort{abortExit, "deadlock: Lock of a mutex already held by the only thread"})
			}
			held[p] = 1
		case "(*sync.Mutex).Unlock", "(*sync.RWMutex).Unlock":
			if held[p] != 1 {
				panic(m.runtimePanic("sync: unlock of unlocked mutex"))
			}
			held[p] = 0
		case "(*sync.RWMutex).RLock":
			held[p] += 2
		case "(*sync.RWMutex).RUnlock":
			held[p] -= 2
		}
		return nil
	}
	t := m.thr
	// carry over single-threaded lock state
	if held, _ := m.models["mutex"].(map[*value]int); held != nil {
		for k, v := range held {
			if v == 1 && t.held[k] == nil {
				t.held[k] = t.list[0]
			}
		}
		delete(m.models, "mutex")
	}
	switch name {
	case "(*sync.Mutex).Lock", "(*sync.RWMutex).Lock", "(*sync.RWMutex).RLock":
		m.yield("lock")
		if t.held[p] == t.cur {
			panic(pathAbort{abortExit, "deadlock: recursive Lock"})
		}
		me := t.cur
		for t.held[p] != nil && t.held[p] != me {
			me.waitFor = func() bool { return t.held[p] != nil && t.held[p] != me }
			m.yield("blocked")
		}
		me.waitFor = nil
		t.held[p] = me
	default:
		if t.held[p] == nil {
			panic(m.runtimePanic("sync: unlock of unlocked mutex"))
		}
		delete(t.held, p)
		m.yield("unlock")
	}
	return nil
}

func registerThreadNatives(P *Program, reg func(string, func(fr *frame, args []value) value)) {
	reg(verifPkg+".Yield", func(fr *frame, a []value) value {
		fr.m.yield("yield")
		return nil
	})
	wgs := func(m *Machine) map[*value]int {
		t, _ := m.models["waitgroup"].(map[*value]int)
		if t == nil {
			t = map[*value]int{}
			m.models["waitgroup"] = t
		}
		return t
	}
	reg("(*sync.WaitGroup).Add", func(fr *frame, a []value) value {
		wgs(fr.m)[a[0].(*value)] += int(fr.m.concreteInt(a[1], "WaitGroup.Add"))
		return nil
	})
	reg("(*sync.WaitGroup).Done", func(fr *frame, a []value) value {
		wgs(fr.m)[a[0].(*value)]--
		return nil
	})
	reg("(*sync.WaitGroup).Wait", func(fr *frame, a []value) value {
		m := fr.m
		p := a[0].(*value)
		tab := wgs(m)
		if tab[p] <= 0 {
			return nil
		}
		t := m.thr
		if t == nil {
			panic(pathAbort{abortExit, "deadlock: WaitGroup.Wait with a positive counter and no other thread"})
		}
		me := t.cur
		for tab[p] > 0 {
			me.waitFor = func() bool { return tab[p] > 0 }
			m.yield("wait")
		}
		me.waitFor = nil
		return nil
	})
	reg(verifPkg+".Preemptions", func(fr *frame, a []value) value {
		t := fr.m.threadsInit()
		t.maxPreempt = int(fr.m.concreteInt(a[0], "Preemptions"))
		return nil
	})
	reg(verifPkg+".WatchField", func(fr *frame, a []value) value {
		t := fr.m.threadsInit()
		t.watch[fr.m.str(a[0])] = true
		return nil
	})
	reg(verifPkg+".Schedule", func(fr *frame, a []value) value {
		t := fr.m.thr
		if t == nil {
			return ""
		}
		return fmt.Sprint(t.schedule)
	})
}
