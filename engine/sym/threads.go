package sym

// threads.go: mutexes and (later) interpreter threads with explicit scheduling.

import "runtime"

func runtimeStack(buf []byte) int { return runtime.Stack(buf, false) }

type threads struct{}

func (t *threads) finish(m *Machine) {}

func (m *Machine) mutexOp(fr *frame, name string, mu value) value {
	held, _ := m.models["mutex"].(map[*value]int)
	if held == nil {
		held = map[*value]int{}
		m.models["mutex"] = held
	}
	p := mu.(*value)
	switch name {
	case "(*sync.Mutex).Lock", "(*sync.RWMutex).Lock":
		if held[p] != 0 {
			panic(m.unsupported("Lock of a mutex already held by the only thread (self-deadlock)"))
		}
		held[p] = 1
	case "(*sync.Mutex).Unlock", "(*sync.RWMutex).Unlock":
		if held[p] != 1 {
			panic(m.runtimePanic("sync: unlock of unlocked mutex"))
		}
		held[p] = 0
	case "(*sync.RWMutex).RLock":
		if held[p] == 1 {
			panic(m.unsupported("RLock of a write-locked mutex (self-deadlock)"))
		}
		held[p] += 2
	case "(*sync.RWMutex).RUnlock":
		held[p] -= 2
	}
	return nil
}

func (m *Machine) spawn(fr *frame, fn value, args []value) {
	panic(m.unsupported("go statement (threads not enabled for this harness)"))
}

func registerThreadNatives(P *Program, reg func(string, func(fr *frame, args []value) value)) {}
