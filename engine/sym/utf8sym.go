package sym

import "unicode"

// utf8sym.go: UTF-8 decoding of strings with symbolic bytes ([]rune(s), range over s).
// The decoder follows unicode/utf8.DecodeRune (including the accept ranges of the second
// byte and RuneError/width 1 for every ill-formed or truncated sequence); the byte class
// of each position is a branch of the exploration, so each path sees runes that are terms
// over the bytes of one well-defined shape.

func (m *Machine) decodeRuneSym(bs []*Term, i int) (*Term, int) {
	tt := m.tt
	c8 := func(v uint64) *Term { return tt.Const(BV(8), v) }
	in := func(b *Term, lo, hi uint64) *Term {
		return tt.And(tt.Bin(OpULe, c8(lo), b), tt.Bin(OpULe, b, c8(hi)))
	}
	runeErr := tt.Const(BV(32), 0xFFFD)
	low := func(b *Term, mask uint64) *Term { return tt.ZExt(tt.Bin(OpBAnd, b, c8(mask)), 32) }
	shl := func(t *Term, n uint64) *Term { return tt.Bin(OpShl, t, tt.Const(BV(32), n)) }
	or := func(a, b *Term) *Term { return tt.Bin(OpBOr, a, b) }
	b0 := bs[i]
	// one branch per width class (the accept ranges of the second byte are part of the
	// condition), so a position forks into at most five cases
	if m.branch(tt.Bin(OpULt, b0, c8(0x80)), "utf8: ascii") {
		return tt.ZExt(b0, 32), 1
	}
	rest := len(bs) - i
	if rest >= 2 {
		b1 := bs[i+1]
		if m.branch(tt.And(in(b0, 0xC2, 0xDF), in(b1, 0x80, 0xBF)), "utf8: well-formed 2-byte sequence") {
			return or(shl(low(b0, 0x1F), 6), low(b1, 0x3F)), 2
		}
		if rest >= 3 {
			b2 := bs[i+2]
			acc3 := tt.Ite(tt.Eq(b0, c8(0xE0)), in(b1, 0xA0, 0xBF), tt.Ite(tt.Eq(b0, c8(0xED)), in(b1, 0x80, 0x9F), in(b1, 0x80, 0xBF)))
			if m.branch(tt.AndN([]*Term{in(b0, 0xE0, 0xEF), acc3, in(b2, 0x80, 0xBF)}), "utf8: well-formed 3-byte sequence") {
				return or(or(shl(low(b0, 0x0F), 12), shl(low(b1, 0x3F), 6)), low(b2, 0x3F)), 3
			}
			if rest >= 4 {
				b3 := bs[i+3]
				acc4 := tt.Ite(tt.Eq(b0, c8(0xF0)), in(b1, 0x90, 0xBF), tt.Ite(tt.Eq(b0, c8(0xF4)), in(b1, 0x80, 0x8F), in(b1, 0x80, 0xBF)))
				if m.branch(tt.AndN([]*Term{in(b0, 0xF0, 0xF4), acc4, in(b2, 0x80, 0xBF), in(b3, 0x80, 0xBF)}), "utf8: well-formed 4-byte sequence") {
					return or(or(or(shl(low(b0, 0x07), 18), shl(low(b1, 0x3F), 12)), shl(low(b2, 0x3F), 6)), low(b3, 0x3F)), 4
				}
			}
		}
	}
	return runeErr, 1
}

// symStringIter ranges over a string with symbolic bytes.
type symStringIter struct {
	s symString
	i int
}

func (it *symStringIter) next(m *Machine) tuple {
	if it.i >= len(it.s) {
		return tuple{m.tt.False, m.intConst(0), m.tt.Const(BV(32), 0)}
	}
	r, w := m.decodeRuneSym(it.s, it.i)
	idx := it.i
	it.i += w
	return tuple{m.tt.True, m.intConst(int64(idx)), r}
}

// ---- unicode classification of symbolic runes ----
//
// unicode.IsDigit & co. are answered from the host's range tables (same standard library
// as the code under test): a concrete rune is classified directly, a symbolic one gets the
// disjunction over the table's ranges as a term, with no forking.

func rangeTableTerm(tt *TermTable, rt *unicode.RangeTable, r *Term) *Term {
	c := func(v uint64) *Term { return tt.Const(BV(32), v) }
	var alts []*Term
	add := func(lo, hi, stride uint64) {
		t := tt.And(tt.Bin(OpULe, c(lo), r), tt.Bin(OpULe, r, c(hi)))
		if stride > 1 && lo != hi {
			t = tt.And(t, tt.Eq(tt.Bin(OpURem, tt.Bin(OpSub, r, c(lo)), c(stride)), c(0)))
		}
		alts = append(alts, t)
	}
	for _, x := range rt.R16 {
		add(uint64(x.Lo), uint64(x.Hi), uint64(x.Stride))
	}
	for _, x := range rt.R32 {
		add(uint64(x.Lo), uint64(x.Hi), uint64(x.Stride))
	}
	if len(alts) == 0 {
		return tt.False
	}
	return tt.OrN(alts)
}

func registerUnicodeNatives(P *Program, reg func(string, func(fr *frame, args []value) value)) {
	pred := func(name string, f func(rune) bool, tables ...*unicode.RangeTable) {
		reg("unicode."+name, func(fr *frame, a []value) value {
			m := fr.m
			r := a[0].(*Term)
			if r.IsConst() {
				return m.tt.Bool(f(rune(int32(r.Val))))
			}
			var alts []*Term
			for _, t := range tables {
				alts = append(alts, rangeTableTerm(m.tt, t, r))
			}
			return m.tt.OrN(alts)
		})
	}
	pred("IsDigit", unicode.IsDigit, unicode.Digit)
	pred("IsNumber", unicode.IsNumber, unicode.Number)
	pred("IsLetter", unicode.IsLetter, unicode.Letter)
	pred("IsUpper", unicode.IsUpper, unicode.Upper)
	pred("IsLower", unicode.IsLower, unicode.Lower)
	pred("IsSpace", unicode.IsSpace, unicode.White_Space)
	pred("IsPunct", unicode.IsPunct, unicode.Punct)
	pred("IsControl", unicode.IsControl, unicode.Cc)
}

// encodeRuneSym is utf8.AppendRune for a symbolic rune; the length class is a branch.
func (m *Machine) encodeRuneSym(r *Term) []*Term {
	tt := m.tt
	if r.Sort.W != 32 {
		r = tt.ZExt(r, 32)
	}
	c := func(v uint64) *Term { return tt.Const(BV(32), v) }
	b := func(t *Term) *Term { return tt.Extract(t, 7, 0) }
	shr := func(n uint64) *Term { return tt.Bin(OpLShr, r, c(n)) }
	tail := func(t *Term) *Term { return b(tt.Bin(OpBOr, tt.Bin(OpBAnd, t, c(0x3F)), c(0x80))) }
	if m.branch(tt.Bin(OpULt, r, c(0x80)), "utf8 encode: 1 byte") {
		return []*Term{b(r)}
	}
	if m.branch(tt.Bin(OpULt, r, c(0x800)), "utf8 encode: 2 bytes") {
		return []*Term{b(tt.Bin(OpBOr, shr(6), c(0xC0))), tail(r)}
	}
	bad := tt.Or(tt.Bin(OpULt, c(0x10FFFF), r), tt.And(tt.Bin(OpULe, c(0xD800), r), tt.Bin(OpULe, r, c(0xDFFF))))
	if m.branch(bad, "utf8 encode: surrogate or out of range") {
		c8 := func(v uint64) *Term { return tt.Const(BV(8), v) }
		return []*Term{c8(0xEF), c8(0xBF), c8(0xBD)}
	}
	if m.branch(tt.Bin(OpULt, r, c(0x10000)), "utf8 encode: 3 bytes") {
		return []*Term{b(tt.Bin(OpBOr, shr(12), c(0xE0))), tail(shr(6)), tail(r)}
	}
	return []*Term{b(tt.Bin(OpBOr, shr(18), c(0xF0))), tail(shr(12)), tail(shr(6)), tail(r)}
}
