package sym

// ops.go: unary/binary operators and conversions over symbolic values.

import (
	"fmt"
	"go/constant"
	"go/token"
	"go/types"
	"unicode/utf8"

	"golang.org/x/tools/go/ssa"
)

func constString(c *ssa.Const) string {
	if c.Value.Kind() == constant.String {
		return constant.StringVal(c.Value)
	}
	// string(rune constant)
	if i, ok := constant.Int64Val(c.Value); ok {
		return string(rune(i))
	}
	return c.Value.String()
}

func (m *Machine) unop(instr *ssa.UnOp, x value) value {
	switch instr.Op {
	case token.MUL: // load
		return m.load(x)
	case token.NOT:
		return m.tt.Not(x.(*Term))
	case token.SUB:
		t := x.(*Term)
		if t.Sort.K == SFP {
			return m.tt.FNeg(t)
		}
		return m.tt.Neg(t)
	case token.XOR:
		return m.tt.BNot(x.(*Term))
	case token.ARROW:
		ch := x.(*chanV)
		v, ok := m.chanRecv(ch, typeOfChanElem(instr.X.Type()))
		if instr.CommaOk {
			return tuple{v, m.tt.Bool(ok)}
		}
		return v
	}
	panic(m.unsupported("unary op %v", instr.Op))
}

func (m *Machine) binop(op token.Token, t types.Type, x, y value) value {
	tt := m.tt
	switch op {
	case token.EQL:
		return m.equals(t, x, y)
	case token.NEQ:
		return tt.Not(m.equals(t, x, y))
	}
	ut := t.Underlying()
	b, isBasic := ut.(*types.Basic)
	if isBasic && b.Info()&types.IsString != 0 {
		switch op {
		case token.ADD:
			if xs, ok := x.(string); ok {
				if ys, ok := y.(string); ok {
					return xs + ys
				}
			}
			return m.mkString(append(append([]*Term(nil), m.strBytes(x)...), m.strBytes(y)...))
		case token.LSS, token.LEQ, token.GTR, token.GEQ:
			xs, ok1 := x.(string)
			ys, ok2 := y.(string)
			if ok1 && ok2 {
				switch op {
				case token.LSS:
					return tt.Bool(xs < ys)
				case token.LEQ:
					return tt.Bool(xs <= ys)
				case token.GTR:
					return tt.Bool(xs > ys)
				default:
					return tt.Bool(xs >= ys)
				}
			}
			lt := m.strLess(m.strBytes(x), m.strBytes(y))
			eq := m.strEq(x, y)
			switch op {
			case token.LSS:
				return lt
			case token.LEQ:
				return tt.Or(lt, eq)
			case token.GTR:
				return tt.Not(tt.Or(lt, eq))
			default:
				return tt.Not(lt)
			}
		}
		panic(m.unsupported("string op %v", op))
	}
	xt, ok1 := x.(*Term)
	yt, ok2 := y.(*Term)
	if !ok1 || !ok2 {
		panic(m.unsupported("binop %v on %T, %T", op, x, y))
	}
	if xt.Sort.K == SBool {
		switch op {
		case token.AND, token.LAND:
			return tt.And(xt, yt)
		case token.OR, token.LOR:
			return tt.Or(xt, yt)
		}
		panic(m.unsupported("bool op %v", op))
	}
	if xt.Sort.K == SFP {
		switch op {
		case token.ADD:
			return tt.FBin(OpFAdd, xt, yt)
		case token.SUB:
			return tt.FBin(OpFSub, xt, yt)
		case token.MUL:
			return tt.FBin(OpFMul, xt, yt)
		case token.QUO:
			return tt.FBin(OpFDiv, xt, yt)
		case token.LSS:
			return tt.FBin(OpFLt, xt, yt)
		case token.LEQ:
			return tt.FBin(OpFLe, xt, yt)
		case token.GTR:
			return tt.FBin(OpFLt, yt, xt)
		case token.GEQ:
			return tt.FBin(OpFLe, yt, xt)
		}
		panic(m.unsupported("float op %v", op))
	}
	signed := isSigned(t)
	w := xt.Sort.W
	switch op {
	case token.ADD:
		return tt.Bin(OpAdd, xt, yt)
	case token.SUB:
		return tt.Bin(OpSub, xt, yt)
	case token.MUL:
		return tt.Bin(OpMul, xt, yt)
	case token.QUO, token.REM:
		zero := tt.Const(xt.Sort, 0)
		if m.branch(tt.Eq(yt, zero), "div by zero") {
			panic(m.runtimePanic("integer divide by zero"))
		}
		if signed {
			if op == token.QUO {
				return tt.Bin(OpSDiv, xt, yt)
			}
			return tt.Bin(OpSRem, xt, yt)
		}
		if op == token.QUO {
			return tt.Bin(OpUDiv, xt, yt)
		}
		return tt.Bin(OpURem, xt, yt)
	case token.AND:
		return tt.Bin(OpBAnd, xt, yt)
	case token.OR:
		return tt.Bin(OpBOr, xt, yt)
	case token.XOR:
		return tt.Bin(OpBXor, xt, yt)
	case token.AND_NOT:
		return tt.Bin(OpBAnd, xt, tt.BNot(yt))
	case token.SHL, token.SHR:
		// shift count has its own type (unsigned or signed); normalise to width w
		var cnt *Term
		if yt.Sort.W == w {
			cnt = yt
		} else if yt.Sort.W < w {
			cnt = tt.ZExt(yt, w)
		} else {
			// wider count: saturate
			big := tt.Bin(OpULe, tt.Const(yt.Sort, uint64(w)), yt)
			cnt = tt.Ite(big, tt.Const(xt.Sort, uint64(w)), tt.Extract(yt, w-1, 0))
		}
		if op == token.SHL {
			return tt.Bin(OpShl, xt, cnt)
		}
		if signed {
			return tt.Bin(OpAShr, xt, cnt)
		}
		return tt.Bin(OpLShr, xt, cnt)
	case token.LSS:
		if signed {
			return tt.Bin(OpSLt, xt, yt)
		}
		return tt.Bin(OpULt, xt, yt)
	case token.LEQ:
		if signed {
			return tt.Bin(OpSLe, xt, yt)
		}
		return tt.Bin(OpULe, xt, yt)
	case token.GTR:
		if signed {
			return tt.Bin(OpSLt, yt, xt)
		}
		return tt.Bin(OpULt, yt, xt)
	case token.GEQ:
		if signed {
			return tt.Bin(OpSLe, yt, xt)
		}
		return tt.Bin(OpULe, yt, xt)
	}
	panic(m.unsupported("binop %v", op))
}

// strLess returns the term for bytewise x < y.
func (m *Machine) strLess(x, y []*Term) *Term {
	tt := m.tt
	n := len(x)
	if len(y) < n {
		n = len(y)
	}
	// result for the suffix starting at position n: x shorter than y
	res := tt.Bool(len(x) < len(y))
	for i := n - 1; i >= 0; i-- {
		lt := tt.Bin(OpULt, x[i], y[i])
		eq := tt.Eq(x[i], y[i])
		res = tt.Or(lt, tt.And(eq, res))
	}
	return res
}

func (m *Machine) conv(dst, src types.Type, x value) value {
	tt := m.tt
	ud, us := dst.Underlying(), src.Underlying()
	switch us := us.(type) {
	case *types.Pointer:
		switch ud := ud.(type) {
		case *types.Basic:
			if ud.Kind() == types.UnsafePointer {
				return x
			}
		case *types.Pointer:
			return x
		}
	case *types.Slice:
		switch ud := ud.(type) {
		case *types.Basic:
			if ud.Info()&types.IsString != 0 {
				xs := x.([]value)
				eb, _ := us.Elem().Underlying().(*types.Basic)
				if eb != nil && eb.Kind() == types.Uint8 {
					bs := make([]*Term, len(xs))
					for i, e := range xs {
						bs[i] = e.(*Term)
					}
					return m.mkString(bs)
				}
				// []rune -> string
				var out []*Term
				for _, e := range xs {
					t := e.(*Term)
					if !t.IsConst() {
						out = append(out, m.encodeRuneSym(t)...)
						continue
					}
					for _, b := range utf8.AppendRune(nil, rune(t.SVal())) {
						out = append(out, tt.Const(BV(8), uint64(b)))
					}
				}
				return m.mkString(out)
			}
		case *types.Slice:
			return x
		}
	case *types.Basic:
		if us.Kind() == types.UnsafePointer {
			switch ud := ud.(type) {
			case *types.Pointer:
				return x
			case *types.Basic:
				if ud.Kind() == types.UnsafePointer {
					return x
				}
				if ud.Kind() == types.Uintptr {
					panic(m.unsupported("unsafe.Pointer -> uintptr"))
				}
			}
		}
		if us.Info()&types.IsString != 0 {
			switch ud := ud.(type) {
			case *types.Slice:
				eb, _ := ud.Elem().Underlying().(*types.Basic)
				if eb != nil && eb.Kind() == types.Uint8 {
					bs := m.strBytes(x)
					out := make([]value, len(bs))
					for i, b := range bs {
						out[i] = b
					}
					return out
				}
				if ss, sym := x.(symString); sym {
					out := []value{}
					for i := 0; i < len(ss); {
						r, w := m.decodeRuneSym(ss, i)
						out = append(out, r)
						i += w
					}
					return out
				}
				s, ok := x.(string)
				if !ok {
					panic(m.unsupported("[]rune(%T)", x))
				}
				var out []value
				for _, r := range s {
					out = append(out, tt.Const(BV(32), uint64(r)))
				}
				if out == nil {
					out = []value{}
				}
				return out
			case *types.Basic:
				if ud.Info()&types.IsString != 0 {
					return x
				}
			}
		}
		bd, ok := ud.(*types.Basic)
		if !ok {
			break
		}
		xt, isT := x.(*Term)
		if !isT {
			break
		}
		switch {
		case us.Info()&types.IsInteger != 0:
			switch {
			case bd.Info()&types.IsInteger != 0:
				wd := intWidth(bd)
				if us.Info()&types.IsUnsigned != 0 {
					return tt.ZExt(xt, wd)
				}
				return tt.SExt(xt, wd)
			case bd.Info()&types.IsFloat != 0:
				return tt.FFromInt(xt, us.Info()&types.IsUnsigned == 0, FP(floatWidth(bd)))
			case bd.Info()&types.IsString != 0:
				if !xt.IsConst() {
					panic(m.unsupported("string(int) with symbolic value"))
				}
				return string(rune(xt.SVal()))
			case bd.Kind() == types.UnsafePointer:
				panic(m.unsupported("uintptr -> unsafe.Pointer"))
			}
		case us.Info()&types.IsFloat != 0:
			switch {
			case bd.Info()&types.IsFloat != 0:
				return tt.FFromFP(xt, FP(floatWidth(bd)))
			case bd.Info()&types.IsInteger != 0:
				return m.floatToInt(xt, bd)
			}
		case us.Info()&types.IsBoolean != 0:
			if bd.Info()&types.IsBoolean != 0 {
				return x
			}
		}
	}
	panic(m.unsupported("conversion %v -> %v", src, dst))
}

// floatToInt follows the amd64 code generator for out-of-range and NaN inputs.
func (m *Machine) floatToInt(x *Term, bd *types.Basic) *Term {
	tt := m.tt
	x64 := tt.FFromFP(x, FP(64))
	if x.IsConst() {
		f := fpConstVal(x)
		var r uint64
		switch bd.Kind() {
		case types.Int, types.Int64:
			r = uint64(int64(f))
		case types.Int32:
			r = uint64(int32(f))
		case types.Int16:
			r = uint64(int16(f))
		case types.Int8:
			r = uint64(int8(f))
		case types.Uint, types.Uint64, types.Uintptr:
			r = uint64(f)
		case types.Uint32:
			r = uint64(uint32(f))
		case types.Uint16:
			r = uint64(uint16(f))
		case types.Uint8:
			r = uint64(uint8(f))
		}
		return tt.Const(BV(intWidth(bd)), r)
	}
	two63 := tt.FConst(FP(64), 9223372036854775808.0)
	mtwo63 := tt.FConst(FP(64), -9223372036854775808.0)
	indef64 := tt.Const(BV(64), 1<<63)
	// cvttsd2sq
	cvt64 := func(f *Term) *Term {
		inRange := tt.And(tt.FBin(OpFLe, mtwo63, f), tt.FBin(OpFLt, f, two63))
		return tt.Ite(inRange, tt.FToInt(f, true, 64), indef64)
	}
	switch bd.Kind() {
	case types.Int, types.Int64:
		return cvt64(x64)
	case types.Uint, types.Uint64, types.Uintptr:
		small := tt.FBin(OpFLt, x64, two63)
		hi := tt.Bin(OpBXor, cvt64(tt.FBin(OpFSub, x64, two63)), indef64)
		// NaN: comparison false -> takes the "big" path: cvt(NaN-2^63) = indef ^ indef = 0... amd64 yields 0x8000000000000000
		return tt.Ite(tt.FIsNaN(x64), indef64, tt.Ite(small, cvt64(x64), hi))
	case types.Int32, types.Int16, types.Int8:
		two31 := tt.FConst(FP(64), 2147483648.0)
		mtwo31m1 := tt.FConst(FP(64), -2147483649.0)
		inRange := tt.And(tt.FBin(OpFLt, mtwo31m1, x64), tt.FBin(OpFLt, x64, two31))
		r32 := tt.Ite(inRange, tt.FToInt(x64, true, 32), tt.Const(BV(32), 1<<31))
		return tt.Extract(r32, intWidth(bd)-1, 0)
	case types.Uint32, types.Uint16, types.Uint8:
		if bd.Kind() == types.Uint32 {
			return tt.Extract(cvt64(x64), 31, 0)
		}
		two31 := tt.FConst(FP(64), 2147483648.0)
		mtwo31m1 := tt.FConst(FP(64), -2147483649.0)
		inRange := tt.And(tt.FBin(OpFLt, mtwo31m1, x64), tt.FBin(OpFLt, x64, two31))
		r32 := tt.Ite(inRange, tt.FToInt(x64, true, 32), tt.Const(BV(32), 1<<31))
		return tt.Extract(r32, intWidth(bd)-1, 0)
	}
	panic(m.unsupported("float -> %v", bd))
}

var _ = fmt.Sprint
