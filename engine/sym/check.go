package sym

// check.go: one property check = load /repo + harness overlays, explore every harness,
// cross-check sampled paths natively, replay counterexamples natively, match known
// findings, write evidence, print VIOLATION / KNOWN-FINDING lines.

import (
	"encoding/json"
	"fmt"
	"math/rand"
	"os"
	"os/exec"
	"path/filepath"
	"regexp"
	"sort"
	"strconv"
	"strings"
	"time"

	"golang.org/x/tools/go/ssa"
)

type CheckOptions struct {
	Prop     string
	Tier     string
	Repo     string
	VerifDir string
	Only     string
	Workers  int
	NoNative bool
	Verbose  bool
	Solver   string
	MaxPaths int
	Strict   bool
}

type KnownFinding struct {
	Status    string            `json:"status"` // "known" | "fixed"
	Property  string            `json:"property"`
	ID        string            `json:"id"`
	Harness   string            `json:"harness"`
	Label     string            `json:"label"`
	Facts     map[string]string `json:"facts,omitempty"` // regexes over path facts
	What      string            `json:"what"`
	Commit    string            `json:"commit,omitempty"`
	InputNote string            `json:"input,omitempty"`
}

type HarnessReport struct {
	Name          string         `json:"harness"`
	Package       string         `json:"package"`
	Paths         int            `json:"paths"`
	Ends          map[string]int `json:"path_ends"`
	Obligations   int            `json:"obligations"`
	Discharged    int            `json:"discharged"`
	GroundTrue    int            `json:"ground_true"`
	FoldedTrue    int            `json:"folded_true"`
	Violated      int            `json:"violated"`
	Unknown       int            `json:"unknown"`
	Transitions   int64          `json:"transitions"`
	Queries       int            `json:"queries"`
	QuerySat      int            `json:"queries_sat"`
	QueryUnsat    int            `json:"queries_unsat"`
	QueryUnknown  int            `json:"queries_unknown"`
	SolverSeconds float64        `json:"solver_time_s"`
	WallSeconds   float64        `json:"wall_s"`
	Steps         int64          `json:"ssa_instructions"`
	ReachLabels   []string       `json:"reach_labels"`
	AssertLabels  map[string]int `json:"assert_labels"`
	Inconclusive  []string       `json:"inconclusive,omitempty"`
	CrossChecked  int            `json:"cross_checked_natively"`
	CrossFailed   []string       `json:"cross_check_failures,omitempty"`
	TimedOut      bool           `json:"timed_out,omitempty"`
	PathCapHit    bool           `json:"path_cap_hit,omitempty"`
}

type cexRecord struct {
	Property  string            `json:"property"`
	Harness   string            `json:"harness"`
	Package   string            `json:"package"`
	Label     string            `json:"assert"`
	Tier      string            `json:"tier"`
	Kind      string            `json:"kind"`
	Vals      map[string]uint64 `json:"vals"`
	Decisions []int64           `json:"decisions"`
	Facts     map[string]string `json:"facts"`
	Trace     []string          `json:"trace,omitempty"`
	Confirmed bool              `json:"confirmed_natively"`
	NativeOut json.RawMessage   `json:"native_outcome,omitempty"`
	RepoHead  string            `json:"repo_head"`
	Known     string            `json:"known_finding,omitempty"`
}

func goEnv() []string {
	return append(os.Environ(), "GOFLAGS=-mod=mod", "GOPROXY=off", "GOSUMDB=off", "GOTOOLCHAIN=local")
}

func harnessTier(name, prop string) (string, bool) {
	// Harness_<prop>_q_xxx : quick and thorough ; Harness_<prop>_t_xxx : thorough only
	p := "Harness_" + prop + "_"
	if !strings.HasPrefix(name, p) {
		return "", false
	}
	rest := name[len(p):]
	if strings.HasPrefix(rest, "t_") {
		return "thorough", true
	}
	return "quick", true
}

func RunCheck(o CheckOptions) int {
	t0 := time.Now()
	seed := int64(1)
	if s := os.Getenv("VERIF_SEED"); s != "" {
		if v, err := strconv.ParseInt(s, 10, 64); err == nil {
			seed = v
		}
	}
	if t := os.Getenv("VERIF_TIER"); t != "" && o.Tier == "" {
		o.Tier = t
	}
	if o.Tier != "thorough" {
		o.Tier = "quick"
	}
	os.Setenv("VERIF_TIER", o.Tier)
	hdir := filepath.Join(o.VerifDir, "harness", o.Prop)
	files, _ := filepath.Glob(filepath.Join(hdir, "*.go"))
	if len(files) == 0 {
		fmt.Fprintf(os.Stderr, "no harness files in %s\n", hdir)
		return 2
	}
	sort.Strings(files)
	ov, realOf, err := HarnessOverlay(o.Repo, files)
	if err != nil {
		fmt.Fprintln(os.Stderr, err)
		return 2
	}
	genTmp, err := os.MkdirTemp("", "hcsym-gen-")
	if err != nil {
		fmt.Fprintln(os.Stderr, err)
		return 2
	}
	defer os.RemoveAll(genTmp)
	gen, err := Generate(o.Repo, hdir, genTmp)
	if err != nil {
		fmt.Fprintln(os.Stderr, "GENERATE FAILED:", err)
		return 2
	}
	for virt, real := range gen {
		b, err := os.ReadFile(real)
		if err != nil {
			fmt.Fprintln(os.Stderr, err)
			return 2
		}
		ov[virt] = b
		realOf[virt] = real
	}
	var dropped []string
	var P *Program
	for attempt := 0; ; attempt++ {
		P, err = Load(LoadConfig{EngineDir: filepath.Join(o.VerifDir, "engine"), Overlay: ov,
			Patterns: []string{"hcverif/...", "github.com/brutella/hc/..."}})
		if err == nil {
			break
		}
		// A harness that names internals of /repo may stop type-checking after a refactoring
		// that keeps the property. Such harness files are dropped (reported as inconclusive,
		// reduced coverage) instead of failing the whole check; errors outside harness files
		// (the tree itself does not compile) end the check.
		bad := map[string]bool{}
		for virt := range ov {
			if strings.Contains(err.Error(), virt) {
				bad[virt] = true
			}
		}
		if len(bad) == 0 || attempt > 6 {
			fmt.Fprintln(os.Stderr, "LOAD FAILED:", err)
			fmt.Printf("INCONCLUSIVE: %s: the tree could not be loaded: %s\n", o.Prop, firstLine(err.Error()))
			writeEvidence(o, seed, nil, nil, nil, time.Since(t0), []string{"load failed: " + err.Error()}, nil)
			return 0
		}
		for virt := range bad {
			dropped = append(dropped, filepath.Base(virt)+": "+firstErrorFor(err.Error(), virt))
			delete(ov, virt)
			delete(realOf, virt)
		}
	}
	if o.Verbose {
		fmt.Fprintf(os.Stderr, "loaded in %.1fs, ssa built in %.1fs\n", P.LoadTime.Seconds(), P.BuildTime.Seconds())
	}
	var inconclusive []string
	for _, d := range dropped {
		inconclusive = append(inconclusive, "harness file dropped (does not type-check against this tree): "+d)
	}
	var hs []*ssa.Function
	for _, h := range P.Harnesses() {
		tier, ok := harnessTier(h.Name(), o.Prop)
		if !ok {
			continue
		}
		if tier == "thorough" && o.Tier != "thorough" {
			continue
		}
		if o.Only != "" && !strings.Contains(h.Name(), o.Only) {
			continue
		}
		hs = append(hs, h)
	}
	if len(hs) == 0 {
		fmt.Fprintln(os.Stderr, "no harness functions selected")
		for _, m := range inconclusive {
			fmt.Printf("INCONCLUSIVE: %s\n", m)
		}
		writeEvidence(o, seed, nil, nil, nil, time.Since(t0), append(inconclusive, "no harness could be run"), P)
		if len(dropped) > 0 {
			return 0
		}
		return 2
	}
	lim := Limits{MaxSteps: 30_000_000, MaxConcrete: 300, QueryTimeout: 20 * time.Second}
	deadline := 8 * time.Minute
	budget := 25 * time.Minute // whole exploration phase of one check
	if o.Tier == "thorough" {
		lim.QueryTimeout = 120 * time.Second
		lim.MaxSteps = 200_000_000
		deadline = 40 * time.Minute
		budget = 4 * time.Hour
	}
	budgetEnd := time.Now().Add(budget)
	violatedSoFar := 0
	var reports []*HarnessReport
	var allCex []*cexRecord
	var samples []interface{}
	type pendingNative struct {
		h      *ssa.Function
		rep    *HarnessReport
		paths  []*PathResult
		cexObs []*Obligation
	}
	var pend []*pendingNative
	rng := rand.New(rand.NewSource(seed))
	for _, h := range hs {
		ht0 := time.Now()
		hd := deadline
		if violatedSoFar > 0 && hd > 2*time.Minute {
			// a counterexample is already in hand: the remaining harnesses only add detail
			hd = 2 * time.Minute
		}
		hEnd := time.Now().Add(hd)
		if hEnd.After(budgetEnd) {
			hEnd = budgetEnd
		}
		if !time.Now().Before(budgetEnd) {
			inconclusive = append(inconclusive, h.Name()+": not run, the time budget of this check was used up by earlier harnesses")
			continue
		}
		ex := &Explorer{P: P, Harness: h, Workers: o.Workers, Lim: lim, Solver: o.Solver,
			Fallbacks: []string{"cvc5", "z3-new"}, FPSolver: "cvc5", MaxPaths: o.MaxPaths, Deadline: hEnd, WantModel: !o.NoNative}
		if err := ex.Run(); err != nil {
			fmt.Fprintln(os.Stderr, "explore:", err)
			return 2
		}
		rep := &HarnessReport{Name: h.Name(), Package: h.Pkg.Pkg.Path(), Ends: map[string]int{}, AssertLabels: map[string]int{}}
		reach := map[string]bool{}
		pn := &pendingNative{h: h, rep: rep}
		for _, r := range ex.Results {
			rep.Paths++
			rep.Ends[r.End]++
			rep.Steps += r.Steps
			for _, l := range r.Reached {
				reach[l] = true
			}
			switch r.End {
			case "unsupported", "bound", "unknown", "engine-error":
				msg := fmt.Sprintf("%s: path ended %s: %s", h.Name(), r.End, r.Msg)
				if len(rep.Inconclusive) < 10 {
					rep.Inconclusive = append(rep.Inconclusive, msg)
				}
			case "panic":
				// an uncaught Go panic of the code under test outside verif.Panics: the harness
				// did not expect it; treat as a violation of "no panic" only if the harness says so.
				msg := fmt.Sprintf("%s: uncaught target panic: %s", h.Name(), r.Msg)
				if len(rep.Inconclusive) < 10 {
					rep.Inconclusive = append(rep.Inconclusive, msg)
				}
			}
			for _, ob := range r.Obligations {
				rep.Obligations++
				rep.AssertLabels[ob.Label]++
				switch ob.Verdict {
				case "unsat":
					rep.Discharged++
				case "folded-true":
					rep.Discharged++
					rep.FoldedTrue++
				case "ground-true":
					rep.Discharged++
					rep.GroundTrue++
				case "sat", "ground-false":
					rep.Violated++
					pn.cexObs = append(pn.cexObs, ob)
				default:
					rep.Unknown++
					if len(rep.Inconclusive) < 10 {
						rep.Inconclusive = append(rep.Inconclusive, fmt.Sprintf("%s: solver unknown on assert %q", h.Name(), ob.Label))
					}
				}
				if len(samples) < 12 && (ob.Verdict == "unsat" || ob.Verdict == "sat" || ob.Verdict == "folded-true") && rng.Intn(4) == 0 {
					samples = append(samples, map[string]interface{}{
						"harness": h.Name(), "assert": ob.Label, "verdict": ob.Verdict, "free_variables": ob.FreeVars,
						"path_condition_conjuncts": ob.PathLen, "solver_ms": ob.Millis, "path_decisions": fmt.Sprint(r.Decisions),
					})
				}
			}
			if r.End == "ok" && r.Model != nil {
				pn.paths = append(pn.paths, r)
			}
		}
		if len(samples) == 0 && len(ex.Results) > 0 {
			for _, r := range ex.Results {
				for _, ob := range r.Obligations {
					samples = append(samples, map[string]interface{}{"harness": h.Name(), "assert": ob.Label, "verdict": ob.Verdict,
						"free_variables": ob.FreeVars, "path_condition_conjuncts": ob.PathLen, "path_decisions": fmt.Sprint(r.Decisions)})
					break
				}
				if len(samples) > 0 {
					break
				}
			}
		}
		rep.ReachLabels = sortedKeys(reach)
		rep.Transitions = ex.Transitions()
		rep.Queries = ex.Stats.Queries
		rep.QuerySat, rep.QueryUnsat, rep.QueryUnknown = ex.Stats.Sat, ex.Stats.Unsat, ex.Stats.Unknown
		rep.SolverSeconds = ex.Stats.Time.Seconds()
		rep.WallSeconds = time.Since(ht0).Seconds()
		rep.TimedOut, rep.PathCapHit = ex.TimedOut, ex.PathCapHit
		if ex.TimedOut {
			rep.Inconclusive = append(rep.Inconclusive, h.Name()+": exploration deadline hit; remaining paths not explored")
		}
		if ex.ViolCapHit {
			rep.Inconclusive = append(rep.Inconclusive, h.Name()+": exploration stopped after 40 candidate counterexamples; remaining paths not explored")
		}
		if ex.PathCapHit {
			rep.Inconclusive = append(rep.Inconclusive, h.Name()+": path cap hit; remaining paths not explored")
		}
		// vacuity: the harness must reach its end on at least one path
		if !reach["end"] {
			rep.Inconclusive = append(rep.Inconclusive, h.Name()+": vacuity guard: no path reached verif.Reach(\"end\")")
		}
		reports = append(reports, rep)
		pend = append(pend, pn)
		violatedSoFar += rep.Violated
		if o.Verbose {
			fmt.Fprintf(os.Stderr, "%s: %d paths %v, %d obligations (%d discharged, %d violated, %d unknown), %d queries, %.1fs\n",
				h.Name(), rep.Paths, rep.Ends, rep.Obligations, rep.Discharged, rep.Violated, rep.Unknown, rep.Queries, rep.WallSeconds)
			for _, m := range rep.Inconclusive {
				fmt.Fprintln(os.Stderr, "  inconclusive:", m)
			}
		}
	}

	// ---- native phase: cross-check sampled paths and replay counterexamples ----
	head := repoHead(o.Repo)
	known := loadKnown(filepath.Join(o.VerifDir, "known_findings.json"))
	var natIn []*nativeInput
	type cexRef struct {
		rec *cexRecord
		idx int
	}
	var cexRefs []cexRef
	crossRef := map[int]*PathResult{}
	crossRep := map[int]*HarnessReport{}
	for _, pn := range pend {
		// sample up to N paths for the cross-check
		N := 60
		if o.Tier == "thorough" {
			N = 200
		}
		idxs := rng.Perm(len(pn.paths))
		if len(idxs) > N {
			idxs = idxs[:N]
		}
		for _, i := range idxs {
			r := pn.paths[i]
			natIn = append(natIn, &nativeInput{Harness: pn.h.Name(), Package: pn.rep.Package, Vals: r.Model})
			crossRef[len(natIn)-1] = r
			crossRep[len(natIn)-1] = pn.rep
		}
		// distinct counterexamples: one per (label, facts)
		// (for counterexamples that depend on a thread schedule or a map iteration order, which
		// the native run cannot be forced into, up to six different ones are tried)
		seen := map[string]int{}
		for _, ob := range pn.cexObs {
			key := ob.Label + "|" + factsKey(ob.Facts)
			lim := 1
			if ob.Facts["_maporder"] != "" || ob.Facts["_schedule"] != "" {
				lim = 6
			}
			if seen[key] >= lim {
				continue
			}
			seen[key]++
			rec := &cexRecord{Property: o.Prop, Harness: pn.h.Name(), Package: pn.rep.Package, Label: ob.Label, Tier: o.Tier,
				Kind: "R1", Vals: ob.Model, Decisions: ob.Decs, Facts: ob.Facts, Trace: ob.Trace, RepoHead: head}
			allCex = append(allCex, rec)
			rpt := 0
			if ob.Facts["_maporder"] != "" || ob.Facts["_schedule"] != "" {
				rpt = 60
			}
			natIn = append(natIn, &nativeInput{Harness: pn.h.Name(), Package: pn.rep.Package, Vals: ob.Model, Repeat: rpt, Cex: true})
			cexRefs = append(cexRefs, cexRef{rec, len(natIn) - 1})
		}
	}
	if !o.NoNative && len(natIn) > 0 {
		outs, nerr := runNative(o, realOf, natIn)
		if nerr != nil {
			inconclusive = append(inconclusive, "native run failed: "+nerr.Error())
		} else {
			for i, r := range crossRef {
				out := outs[i]
				rep := crossRep[i]
				if out == nil {
					rep.CrossFailed = append(rep.CrossFailed, "no native outcome")
					continue
				}
				if !out.Skipped && r.Facts["_maporder"] == "" && r.Facts["_schedule"] == "" {
					rep.CrossChecked++
				}
				if msg := compareOutcome(r, out); msg != "" && len(rep.CrossFailed) < 5 {
					rep.CrossFailed = append(rep.CrossFailed, fmt.Sprintf("%s decisions=%v: %s", r.Facts, r.Decisions, msg))
				}
			}
			for _, cr := range cexRefs {
				out := outs[cr.idx]
				if out == nil {
					continue
				}
				b, _ := json.Marshal(out)
				cr.rec.NativeOut = b
				if out.Skipped {
					// engine-only harness (facts read off the SSA of /repo): nothing to replay
					cr.rec.Confirmed = true
					cr.rec.Kind = "SSA"
				}
				for _, l := range out.Failed {
					if l == cr.rec.Label {
						cr.rec.Confirmed = true
					}
				}
				if out.Panic != "" && strings.HasPrefix(cr.rec.Label, "nopanic") {
					cr.rec.Confirmed = true
				}
			}
		}
	}
	for _, rep := range reports {
		inconclusive = append(inconclusive, rep.Inconclusive...)
		for _, f := range rep.CrossFailed {
			inconclusive = append(inconclusive, rep.Name+": translator cross-check mismatch: "+f)
		}
	}

	// ---- verdict ----
	replayDir := filepath.Join(evidenceDir(o.VerifDir), "replay")
	os.MkdirAll(replayDir, 0o755)
	violations := 0
	knownHit := map[string]bool{}
	confirmedLabel := map[string]bool{}
	for _, rec := range allCex {
		if rec.Confirmed {
			confirmedLabel[rec.Harness+"|"+rec.Label] = true
		}
	}
	shownUnconfirmed := map[string]int{}
	for i, rec := range allCex {
		if kf := matchKnown(known, rec); kf != nil {
			rec.Known = kf.ID
			if !knownHit[kf.ID] {
				knownHit[kf.ID] = true
				fmt.Printf("KNOWN-FINDING: property=%s %s\n", o.Prop, kf.What)
			}
			continue
		}
		path := filepath.Join(replayDir, fmt.Sprintf("%s-%s-%d.json", o.Prop, o.Tier, i))
		b, _ := json.MarshalIndent(rec, "", " ")
		os.WriteFile(path, b, 0o644)
		if strings.HasPrefix(rec.Label, "inv:") {
			// an internal (implementation-specific) inductive invariant: its failure means the
			// invariant does not fit this implementation or the bounded harnesses will show a
			// real history; on its own it is never reported as a violation
			inconclusive = append(inconclusive, fmt.Sprintf("%s: internal invariant %q is not preserved (facts %v); not a violation by itself (replay %s)", rec.Harness, rec.Label, rec.Facts, path))
			continue
		}
		if rec.Confirmed || o.NoNative {
			violations++
			fmt.Printf("VIOLATION property=%s replay=%s\n", o.Prop, path)
			fmt.Printf("  harness=%s assert=%q facts=%v\n", rec.Harness, rec.Label, rec.Facts)
		} else if !confirmedLabel[rec.Harness+"|"+rec.Label] {
			// a symbolic counterexample that the native run does not reproduce is not reported as a
			// violation (the encoding, a stub or an idealisation may be responsible)
			k := rec.Harness + "|" + rec.Label
			shownUnconfirmed[k]++
			if shownUnconfirmed[k] <= 3 {
				msg := fmt.Sprintf("%s: counterexample for assert %q (facts %v) did not reproduce natively (replay %s)", rec.Harness, rec.Label, rec.Facts, path)
				inconclusive = append(inconclusive, msg)
			}
		}
	}
	for _, m := range inconclusive {
		fmt.Printf("INCONCLUSIVE: %s\n", m)
	}
	writeEvidence(o, seed, reports, samples, allCex, time.Since(t0), inconclusive, P)
	if violations > 0 {
		return 1
	}
	if len(inconclusive) > 0 && o.Strict {
		return 2
	}
	fmt.Printf("OK property=%s tier=%s harnesses=%d wall=%.1fs\n", o.Prop, o.Tier, len(reports), time.Since(t0).Seconds())
	return 0
}

func factsKey(f map[string]string) string {
	ks := make([]string, 0, len(f))
	for k := range f {
		ks = append(ks, k)
	}
	sort.Strings(ks)
	var sb strings.Builder
	for _, k := range ks {
		sb.WriteString(k + "=" + f[k] + ";")
	}
	return sb.String()
}

func sortedKeys(m map[string]bool) []string {
	ks := make([]string, 0, len(m))
	for k := range m {
		ks = append(ks, k)
	}
	sort.Strings(ks)
	return ks
}

func repoHead(repo string) string {
	out, err := exec.Command("git", "-C", repo, "rev-parse", "HEAD").Output()
	if err != nil {
		return ""
	}
	return strings.TrimSpace(string(out))
}

func loadKnown(path string) []*KnownFinding {
	b, err := os.ReadFile(path)
	if err != nil {
		return nil
	}
	var ks []*KnownFinding
	if err := json.Unmarshal(b, &ks); err != nil {
		fmt.Fprintln(os.Stderr, "known_findings.json:", err)
		return nil
	}
	return ks
}

func matchKnown(ks []*KnownFinding, rec *cexRecord) *KnownFinding {
	for _, k := range ks {
		if k.Status != "known" || k.Property != rec.Property {
			continue
		}
		if k.Harness != "" && k.Harness != rec.Harness {
			continue
		}
		if k.Label != "" && k.Label != rec.Label {
			continue
		}
		ok := true
		for fk, pat := range k.Facts {
			re, err := regexp.Compile("^(?:" + pat + ")$")
			if err != nil || !re.MatchString(rec.Facts[fk]) {
				ok = false
				break
			}
		}
		if ok {
			return k
		}
	}
	return nil
}

// ---- native execution ----

type nativeInput struct {
	Harness string            `json:"harness"`
	Package string            `json:"package"`
	Vals    map[string]uint64 `json:"vals"`
	Repeat  int               `json:"repeat,omitempty"` // re-run until an assert fails (map-order dependent counterexamples)
	Cex     bool              `json:"cex,omitempty"`    // a counterexample (as opposed to a sampled cross-check path)
}

type nativeOutcome struct {
	Failed    []string           `json:"failed"`
	Passed    []string           `json:"passed"`
	Reached   []string           `json:"reached"`
	AssumeBad bool               `json:"assume_bad"`
	Skipped   bool               `json:"skipped,omitempty"`
	Panic     string             `json:"panic,omitempty"`
	Observed  map[string][]int64 `json:"observed,omitempty"`
	Facts     map[string]string  `json:"facts,omitempty"`
}

func compareOutcome(r *PathResult, out *nativeOutcome) string {
	if out.Skipped || r.Facts["_maporder"] != "" || r.Facts["_schedule"] != "" {
		// engine-only paths, and paths on which the engine chose a map iteration order (the
		// native run cannot be forced into the same order), are not comparable
		return ""
	}
	if out.AssumeBad {
		return "native run rejected an assumption the engine accepted"
	}
	if out.Panic != "" {
		return "native run panicked: " + out.Panic
	}
	// asserts: every assert the engine discharged on this path must pass natively
	engFailed := map[string]bool{}
	for _, ob := range r.Obligations {
		if ob.Verdict == "sat" || ob.Verdict == "ground-false" {
			engFailed[ob.Label] = true
		}
	}
	for _, l := range out.Failed {
		if !engFailed[l] {
			return fmt.Sprintf("assert %q fails natively but was discharged symbolically", l)
		}
	}
	if strings.Join(r.Reached, ",") != strings.Join(out.Reached, ",") {
		return fmt.Sprintf("reach sequence differs: engine %v native %v", r.Reached, out.Reached)
	}
	for name, ev := range r.Observed {
		nv, ok := out.Observed[name]
		if !ok {
			return "observation " + name + " missing natively"
		}
		if len(nv) != len(ev) {
			return fmt.Sprintf("observation %s: length %d vs native %d", name, len(ev), len(nv))
		}
		for i := range ev {
			if ev[i] >= 0 && ev[i] != nv[i] && uint64(ev[i]) != uint64(nv[i]) {
				return fmt.Sprintf("observation %s[%d]: engine %d native %d", name, i, ev[i], nv[i])
			}
		}
	}
	return ""
}

const nativeTestTemplate = `package %s

import (
	"encoding/json"
	"os"
	"testing"

	"hcverif/verif"
)

type zzIn struct {
	Harness string            ` + "`json:\"harness\"`" + `
	Package string            ` + "`json:\"package\"`" + `
	Vals    map[string]uint64 ` + "`json:\"vals\"`" + `
	Repeat  int               ` + "`json:\"repeat\"`" + `
}

func TestZZVerifNative(t *testing.T) {
	table := map[string]func(){
%s	}
	b, err := os.ReadFile(os.Getenv("HCVERIF_INPUTS"))
	if err != nil {
		t.Fatal(err)
	}
	var ins []*zzIn
	if err := json.Unmarshal(b, &ins); err != nil {
		t.Fatal(err)
	}
	outs := make([]*verif.Outcome, len(ins))
	for i, in := range ins {
		if in == nil || in.Package != %q {
			continue
		}
		f := table[in.Harness]
		if f == nil {
			continue
		}
		outs[i] = verif.RunNative(&verif.Input{Vals: in.Vals}, f)
		for k := 1; k < in.Repeat && len(outs[i].Failed) == 0 && outs[i].Panic == ""; k++ {
			outs[i] = verif.RunNative(&verif.Input{Vals: in.Vals}, f)
		}
		verif.CleanupTempDirs()
	}
	verif.CleanupTempDirs()
	ob, _ := json.Marshal(outs)
	if err := os.WriteFile(os.Getenv("HCVERIF_OUTPUTS"), ob, 0644); err != nil {
		t.Fatal(err)
	}
}
`

// runNative executes the harnesses natively (go test -overlay) on the given inputs.
// runNative runs all inputs in one test process per package. When that process dies (a Go
// "fatal error", e.g. unlock of an unlocked mutex, or a panic outside the harness's recover),
// the counterexample inputs are re-run one per process: an input whose own process dies
// gets an outcome with Panic set (a crash reproduces a "does not panic" counterexample);
// the sampled cross-check inputs are given up for this run.
func runNative(o CheckOptions, realOf map[string]string, ins []*nativeInput) ([]*nativeOutcome, error) {
	outs, err := runNativeBatch(o, realOf, ins)
	if err == nil {
		return outs, nil
	}
	outs = make([]*nativeOutcome, len(ins))
	any := false
	tried := 0
	for i, in := range ins {
		if !in.Cex || tried >= 16 {
			continue
		}
		tried++
		one, e1 := runNativeBatch(o, realOf, []*nativeInput{in})
		if e1 == nil {
			if len(one) == 1 {
				outs[i] = one[0]
				any = true
			}
			continue
		}
		msg := e1.Error()
		if k := strings.Index(msg, "fatal error:"); k >= 0 {
			line := msg[k:]
			if j := strings.IndexByte(line, '\n'); j >= 0 {
				line = line[:j]
			}
			outs[i] = &nativeOutcome{Panic: "process died: " + line}
			any = true
		} else if k := strings.Index(msg, "panic:"); k >= 0 {
			line := msg[k:]
			if j := strings.IndexByte(line, '\n'); j >= 0 {
				line = line[:j]
			}
			outs[i] = &nativeOutcome{Panic: "process died: " + line}
			any = true
		}
	}
	if !any {
		return nil, err
	}
	return outs, nil
}

func runNativeBatch(o CheckOptions, realOf map[string]string, ins []*nativeInput) ([]*nativeOutcome, error) {
	tmp, err := os.MkdirTemp("", "hcsym-native-")
	if err != nil {
		return nil, err
	}
	defer os.RemoveAll(tmp)
	inPath := filepath.Join(tmp, "inputs.json")
	b, _ := json.Marshal(ins)
	if err := os.WriteFile(inPath, b, 0o644); err != nil {
		return nil, err
	}
	// group harnesses by package
	byPkg := map[string]map[string]bool{}
	for _, in := range ins {
		if byPkg[in.Package] == nil {
			byPkg[in.Package] = map[string]bool{}
		}
		byPkg[in.Package][in.Harness] = true
	}
	outs := make([]*nativeOutcome, len(ins))
	for pkg, hs := range byPkg {
		rel := strings.TrimPrefix(strings.TrimPrefix(pkg, "github.com/brutella/hc"), "/")
		dir := filepath.Join(o.Repo, rel)
		pkgName, err := packageName(dir)
		if err != nil {
			return nil, err
		}
		var tbl strings.Builder
		for _, h := range sortedKeys(hs) {
			fmt.Fprintf(&tbl, "\t\t%q: %s,\n", h, h)
		}
		testSrc := fmt.Sprintf(nativeTestTemplate, pkgName, tbl.String(), pkg)
		testFile := filepath.Join(tmp, strings.ReplaceAll(rel, "/", "_")+"_zz_native_test.go")
		os.WriteFile(testFile, []byte(testSrc), 0o644)
		repl := map[string]string{filepath.Join(dir, "zz_verif_native_test.go"): testFile}
		for virt, real := range realOf {
			repl[virt] = real
		}
		ovb, _ := json.Marshal(map[string]interface{}{"Replace": repl})
		ovPath := filepath.Join(tmp, "overlay.json")
		os.WriteFile(ovPath, ovb, 0o644)
		outPath := filepath.Join(tmp, "out-"+strings.ReplaceAll(rel, "/", "_")+".json")
		cmd := exec.Command("go", "test", "-vet=off", "-count=1", "-timeout", "20m", "-overlay", ovPath, "-run", "^TestZZVerifNative$", pkg)
		cmd.Dir = filepath.Join(o.VerifDir, "engine")
		cmd.Env = append(goEnv(), "HCVERIF_INPUTS="+inPath, "HCVERIF_OUTPUTS="+outPath, "VERIF_TIER="+o.Tier)
		outb, err := cmd.CombinedOutput()
		if err != nil {
			txt := string(outb)
			if len(txt) > 3000 {
				txt = txt[len(txt)-3000:]
			}
			return nil, fmt.Errorf("go test %s: %v\n%s", pkg, err, txt)
		}
		ob, err := os.ReadFile(outPath)
		if err != nil {
			return nil, err
		}
		var part []*nativeOutcome
		if err := json.Unmarshal(ob, &part); err != nil {
			return nil, err
		}
		for i, p := range part {
			if p != nil {
				outs[i] = p
			}
		}
	}
	return outs, nil
}

func packageName(dir string) (string, error) {
	files, _ := filepath.Glob(filepath.Join(dir, "*.go"))
	for _, f := range files {
		if strings.HasSuffix(f, "_test.go") {
			continue
		}
		b, err := os.ReadFile(f)
		if err != nil {
			continue
		}
		for _, line := range strings.Split(string(b), "\n") {
			line = strings.TrimSpace(line)
			if strings.HasPrefix(line, "package ") {
				return strings.Fields(line)[1], nil
			}
		}
	}
	return "", fmt.Errorf("no package clause found in %s", dir)
}

// RunReplay re-runs a recorded counterexample natively against the current tree.
func RunReplay(path, repo, verifDir string) int {
	b, err := os.ReadFile(path)
	if err != nil {
		fmt.Fprintln(os.Stderr, err)
		return 2
	}
	var rec cexRecord
	if err := json.Unmarshal(b, &rec); err != nil {
		fmt.Fprintln(os.Stderr, err)
		return 2
	}
	files, _ := filepath.Glob(filepath.Join(verifDir, "harness", rec.Property, "*.go"))
	_, realOf, err := HarnessOverlay(repo, files)
	if err != nil {
		fmt.Fprintln(os.Stderr, err)
		return 2
	}
	genTmp, err := os.MkdirTemp("", "hcsym-gen-")
	if err != nil {
		fmt.Fprintln(os.Stderr, err)
		return 2
	}
	defer os.RemoveAll(genTmp)
	gen, err := Generate(repo, filepath.Join(verifDir, "harness", rec.Property), genTmp)
	if err != nil {
		fmt.Fprintln(os.Stderr, err)
		return 2
	}
	for virt, real := range gen {
		realOf[virt] = real
	}
	o := CheckOptions{Prop: rec.Property, Tier: rec.Tier, Repo: repo, VerifDir: verifDir}
	outs, err := runNative(o, realOf, []*nativeInput{{Harness: rec.Harness, Package: rec.Package, Vals: rec.Vals}})
	if err != nil {
		fmt.Fprintln(os.Stderr, err)
		return 2
	}
	ob, _ := json.MarshalIndent(outs[0], "", " ")
	fmt.Println(string(ob))
	if outs[0] != nil {
		for _, l := range outs[0].Failed {
			if l == rec.Label {
				fmt.Printf("REPRODUCED property=%s harness=%s assert=%q\n", rec.Property, rec.Harness, rec.Label)
				return 1
			}
		}
		if outs[0].Panic != "" {
			fmt.Printf("REPRODUCED (panic) property=%s harness=%s: %s\n", rec.Property, rec.Harness, outs[0].Panic)
			return 1
		}
	}
	fmt.Println("NOT REPRODUCED")
	return 0
}

func firstLine(s string) string {
	if i := strings.IndexByte(s, '\n'); i >= 0 {
		rest := strings.TrimSpace(s[i+1:])
		if j := strings.IndexByte(rest, '\n'); j >= 0 {
			rest = rest[:j]
		}
		return strings.TrimSpace(s[:i]) + " " + rest
	}
	return s
}

func firstErrorFor(all, file string) string {
	for _, l := range strings.Split(all, "\n") {
		if strings.Contains(l, file) {
			l = strings.TrimSpace(l)
			if len(l) > 240 {
				l = l[:240]
			}
			return l
		}
	}
	return ""
}
