package sym

import (
	"fmt"
	"strings"
)

// substTable maps a real function (by ssa name) to the Go-source model in hcverif/models
// that replaces it.
var substTable = map[string]string{
	"encoding/binary.Read":                           "BinaryRead",
	"encoding/hex.EncodeToString":                    "HexEncodeToString",
	"crypto/sha512.New":                              "SHA512New",
	"crypto/sha256.New":                              "SHA256New",
	"crypto/sha1.New":                                "SHA1New",
	"crypto/md5.New":                                 "MD5New",
	"crypto/sha512.Sum512":                           "SHA512Sum512",
	"crypto/md5.Sum":                                 "MD5Sum",
	"golang.org/x/crypto/hkdf.New":                   "HKDFNew",
	"golang.org/x/crypto/hkdf.Extract":               "HKDFExtract",
	"golang.org/x/crypto/hkdf.Expand":                "HKDFExpand",
	"golang.org/x/crypto/chacha20poly1305.New":       "AEADNew",
	"crypto/ed25519.GenerateKey":                     "Ed25519GenerateKey",
	"crypto/ed25519.Sign":                            "Ed25519Sign",
	"crypto/ed25519.Verify":                          "Ed25519Verify",
	"golang.org/x/crypto/curve25519.ScalarBaseMult":  "ScalarBaseMult",
	"golang.org/x/crypto/curve25519.ScalarMult":      "ScalarMult",
	"strconv.ParseUint":                              "ParseUint",
	"github.com/tadglines/go-pkgs/crypto/srp.NewSRP": "SRPNew",
	"(*github.com/tadglines/go-pkgs/crypto/srp.SRP).ComputeVerifier":                     "SRPComputeVerifier",
	"(*github.com/tadglines/go-pkgs/crypto/srp.SRP).NewServerSession":                    "SRPNewServerSession",
	"(*github.com/tadglines/go-pkgs/crypto/srp.ServerSession).GetB":                      "SRPGetB",
	"(*github.com/tadglines/go-pkgs/crypto/srp.ServerSession).ComputeKey":                "SRPComputeKey",
	"(*github.com/tadglines/go-pkgs/crypto/srp.ServerSession).VerifyClientAuthenticator": "SRPVerifyClientAuthenticator",
	"(*github.com/tadglines/go-pkgs/crypto/srp.ServerSession).ComputeAuthenticator":      "SRPComputeAuthenticator",
	"os.OpenFile":                "OpenFile",
	"os.Create":                  "Create",
	"os.Open":                    "Open",
	"(*os.File).Write":           "FileWrite",
	"(*os.File).WriteString":     "FileWriteString",
	"(*os.File).Read":            "FileRead",
	"(*os.File).Close":           "FileClose",
	"(*os.File).Sync":            "FileSync",
	"(*os.File).Name":            "FileName",
	"os.Stat":                    "Stat",
	"os.Lstat":                   "Stat",
	"os.IsNotExist":              "IsNotExist",
	"os.IsExist":                 "IsExist",
	"errors.Is":                  "ErrorsIs",
	"os.Remove":                  "Remove",
	"os.Rename":                  "Rename",
	"os.MkdirAll":                "MkdirAll",
	"os.TempDir":                 "TempDir",
	"os.ReadFile":                "ReadFile",
	"os.WriteFile":               "WriteFile",
	"io/ioutil.ReadDir":          "ReadDir",
	"os.ReadDir":                 "ReadDirEntries",
	"io/ioutil.ReadFile":         "ReadFile",
	"io/ioutil.WriteFile":        "WriteFile",
	"path/filepath.Abs":          "Abs",
	"net/http.Error":             "HTTPError",
	"(*net/http.Response).Write": "ResponseWrite",
	"crypto/rand.Read":           "RandRead",
	"os.CreateTemp":              "CreateTemp",
	"io/ioutil.TempFile":         "CreateTemp",
	"(*os.File).Seek":            "FileSeek",
	"(*os.File).Truncate":        "FileTruncate",
	"os.Truncate":                "Truncate",
	"(*os.File).Stat":            "FileStat",
	"os.RemoveAll":               "RemoveAll",
	"os.Mkdir":                   "Mkdir",
	"(*os.File).ReadAt":          "FileReadAt",
}

func registerSubst(P *Program) error {
	mp := P.byPath[modelsPkg]
	if mp == nil {
		return nil // models not loaded (engine self-test without harness)
	}
	for real, model := range substTable {
		f := mp.Func(model)
		if f == nil {
			return fmt.Errorf("model %s.%s for %s not found", modelsPkg, model, real)
		}
		P.subst[real] = f
	}
	// models may declare further substitutions by naming convention: func Subst__<pkg>__<Name>
	for name, mem := range mp.Members {
		if !strings.HasPrefix(name, "Subst__") {
			continue
		}
		_ = mem
	}
	return nil
}
