package sym

import (
	"fmt"
	"strings"
)

// substTable maps a real function (by ssa name) to the Go-source model in hcverif/models
// that replaces it.
var substTable = map[string]string{
	"encoding/binary.Read": "BinaryRead",
	"encoding/hex.EncodeToString": "HexEncodeToString",
}

func registerSubst(P *Program) error {
	mp := P.byPath[modelsPkg]
	if mp == nil {
		return nil // models not loaded (engine self-test without harness)
	}
	for real, model := range substTable {
		f := mp.Func(model)
		if f == nil {
			return fmt.Errorf("model %s.%s for %s not found", modelsPkg, model, real)
		}
		P.subst[real] = f
	}
	// models may declare further substitutions by naming convention: func Subst__<pkg>__<Name>
	for name, mem := range mp.Members {
		if !strings.HasPrefix(name, "Subst__") {
			continue
		}
		_ = mem
	}
	return nil
}
