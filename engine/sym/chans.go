package sym

// chans.go: channels. Buffered and unbuffered channels, close, select; blocking operations
// park the interpreter thread (threads.go) until they can proceed. In a single-threaded
// run an operation that would block for ever ends the path ("deadlock"). select picks
// among the ready cases by an explored choice. time.After is a channel that may fire at any
// time (it is ready at once; with select every alternative is explored).

import (
	"go/types"

	"golang.org/x/tools/go/ssa"
)

func typeOfChanElem(t types.Type) types.Type {
	if c, ok := t.Underlying().(*types.Chan); ok {
		return c.Elem()
	}
	return nil
}

// block parks the current thread while cond() holds.
func (m *Machine) block(why string, cond func() bool) {
	if !cond() {
		return
	}
	if m.thr == nil || len(m.thr.list) < 2 {
		panic(pathAbort{abortExit, "deadlock: " + why + " blocks for ever (no other thread)"})
	}
	me := m.thr.cur
	for cond() {
		me.waitFor = cond
		m.yield("blocked")
	}
	me.waitFor = nil
}

func (m *Machine) chanSend(ch *chanV, v value) {
	if ch == nil {
		m.block("send on nil channel", func() bool { return true })
	}
	if ch.closed {
		panic(m.runtimePanic("send on closed channel"))
	}
	if ch.cap > 0 {
		m.block("send on a full channel", func() bool { return len(ch.buf) >= ch.cap && !ch.closed })
		if ch.closed {
			panic(m.runtimePanic("send on closed channel"))
		}
		ch.buf = append(ch.buf, v)
		ch.sent++
		m.yield("send")
		return
	}
	// unbuffered: deposit, then wait until a receiver has taken it
	ch.buf = append(ch.buf, v)
	ch.sent++
	ticket := ch.sent
	m.yield("send")
	m.block("send on an unbuffered channel", func() bool { return ch.recvd < ticket })
}

func (m *Machine) chanRecv(ch *chanV, elem types.Type) (value, bool) {
	if ch == nil {
		m.block("receive on nil channel", func() bool { return true })
	}
	m.block("receive on an empty channel", func() bool { return len(ch.buf) == 0 && !ch.closed })
	if len(ch.buf) == 0 {
		var z value
		if elem != nil {
			z = m.zero(elem)
		}
		return z, false
	}
	v := ch.buf[0]
	ch.buf = ch.buf[1:]
	ch.recvd++
	m.yield("recv")
	return v, true
}

func (m *Machine) chanSelect(fr *frame, instr *ssa.Select) value {
	type st struct {
		ch   *chanV
		send bool
		val  value
		elem types.Type
	}
	states := make([]st, len(instr.States))
	for i, s := range instr.States {
		states[i].ch, _ = fr.get(s.Chan).(*chanV)
		states[i].send = s.Dir == types.SendOnly
		states[i].elem = typeOfChanElem(s.Chan.Type())
		if states[i].send {
			states[i].val = fr.get(s.Send)
		}
	}
	ready := func() []int {
		var r []int
		for i, s := range states {
			if s.ch == nil {
				continue
			}
			if s.send {
				if s.ch.closed || (s.ch.cap > 0 && len(s.ch.buf) < s.ch.cap) {
					r = append(r, i)
				}
			} else if len(s.ch.buf) > 0 || s.ch.closed {
				r = append(r, i)
			}
		}
		return r
	}
	r := ready()
	if len(r) == 0 && instr.Blocking {
		m.block("select with no ready case", func() bool { return len(ready()) == 0 })
		r = ready()
	}
	idx := -1
	if len(r) > 0 {
		idx = r[m.choice(len(r), "select")]
	}
	out := tuple{m.intConst(int64(idx)), m.tt.False}
	for i, s := range states {
		if s.send {
			continue
		}
		var z value
		if s.elem != nil {
			z = m.zero(s.elem)
		}
		if i == idx {
			v, ok := m.chanRecv(s.ch, s.elem)
			out[1] = m.tt.Bool(ok)
			z = v
		}
		out = append(out, z)
	}
	if idx >= 0 && states[idx].send {
		m.chanSend(states[idx].ch, states[idx].val)
	}
	return out
}

func registerChanNatives(P *Program, reg func(string, func(fr *frame, args []value) value)) {
	// hc.NewIPTransport creates an mDNS responder (sockets); a transport that is never started
	// does not use it
	reg("github.com/brutella/dnssd.NewResponder", func(fr *frame, a []value) value { return tuple{iface{}, iface{}} })
	reg("time.After", func(fr *frame, a []value) value {
		m := fr.m
		var z value
		if tp := m.P.byPath["time"]; tp != nil && tp.Type("Time") != nil {
			z = m.zero(tp.Type("Time").Type())
		}
		return &chanV{cap: 1, buf: []value{z}}
	})
}
