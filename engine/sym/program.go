package sym

// program.go: loading /repo (current working tree) + harness overlays into SSA.

import (
	"crypto/sha256"
	"encoding/hex"
	"fmt"
	"go/types"
	"os"
	"path/filepath"
	"sort"
	"strings"
	"sync"
	"time"

	"golang.org/x/tools/go/packages"
	"golang.org/x/tools/go/ssa"
	"golang.org/x/tools/go/ssa/ssautil"
)

type Program struct {
	Prog          *ssa.Program
	Pkgs          []*packages.Package
	byPath        map[string]*ssa.Package
	natives       map[string]*native
	subst         map[string]*ssa.Function
	skipInit      map[string]bool
	countCalls    map[string]bool
	runtimeErrorT types.Type
	LoadTime      time.Duration
	BuildTime     time.Duration
	FileHashes    map[string]string

	mu        sync.Mutex
	methCache map[methKey]*ssa.Function
	implCache map[implKey]bool
}

type methKey struct {
	t    string
	name string
	pkg  string
}
type implKey struct {
	t string
	i string
}

// LoadConfig describes what to load.
type LoadConfig struct {
	EngineDir string            // module dir with `replace github.com/brutella/hc => /repo`
	Overlay   map[string][]byte // virtual harness files inside /repo packages
	Patterns  []string
}

func Load(cfg LoadConfig) (*Program, error) {
	t0 := time.Now()
	pcfg := &packages.Config{
		Mode:    packages.LoadAllSyntax,
		Dir:     cfg.EngineDir,
		Overlay: cfg.Overlay,
		Env:     append(os.Environ(), "GOFLAGS=-mod=mod", "GOPROXY=off", "GOSUMDB=off", "GOTOOLCHAIN=local"),
	}
	pkgs, err := packages.Load(pcfg, cfg.Patterns...)
	if err != nil {
		return nil, err
	}
	var errs []string
	packages.Visit(pkgs, nil, func(p *packages.Package) {
		for _, e := range p.Errors {
			errs = append(errs, e.Error())
		}
	})
	if len(errs) > 0 {
		if len(errs) > 12 {
			errs = errs[:12]
		}
		return nil, fmt.Errorf("load errors:\n  %s", strings.Join(errs, "\n  "))
	}
	loadT := time.Since(t0)
	t1 := time.Now()
	prog, _ := ssautil.AllPackages(pkgs, ssa.InstantiateGenerics)
	prog.Build()
	P := &Program{
		Prog: prog, Pkgs: pkgs, byPath: map[string]*ssa.Package{},
		natives: map[string]*native{}, subst: map[string]*ssa.Function{},
		skipInit: map[string]bool{}, countCalls: map[string]bool{},
		methCache: map[methKey]*ssa.Function{}, implCache: map[implKey]bool{},
		LoadTime: loadT, BuildTime: time.Since(t1), FileHashes: map[string]string{},
	}
	for _, p := range prog.AllPackages() {
		P.byPath[p.Pkg.Path()] = p
	}
	if rt := P.byPath["runtime"]; rt != nil {
		if ty := rt.Type("errorString"); ty != nil {
			P.runtimeErrorT = ty.Type()
		}
	}
	if P.runtimeErrorT == nil {
		return nil, fmt.Errorf("runtime.errorString not found")
	}
	P.skipInit["errors"] = true // its init only builds a reflectlite type used by errors.As
	registerNatives(P)
	if err := registerSubst(P); err != nil {
		return nil, err
	}
	// hash the hc source files that were loaded
	packages.Visit(pkgs, nil, func(p *packages.Package) {
		if !strings.HasPrefix(p.PkgPath, "github.com/brutella/hc") {
			return
		}
		for _, f := range p.GoFiles {
			if _, virtual := cfg.Overlay[f]; virtual {
				continue
			}
			if b, err := os.ReadFile(f); err == nil {
				h := sha256.Sum256(b)
				P.FileHashes[f] = hex.EncodeToString(h[:8])
			}
		}
	})
	return P, nil
}

func (P *Program) Package(path string) *ssa.Package { return P.byPath[path] }

// Func finds a package-level function "pkgpath.Name".
func (P *Program) Func(pkgPath, name string) *ssa.Function {
	p := P.byPath[pkgPath]
	if p == nil {
		return nil
	}
	return p.Func(name)
}

// Harnesses lists functions named Harness_* in all packages, sorted.
func (P *Program) Harnesses() []*ssa.Function {
	var out []*ssa.Function
	for _, p := range P.Prog.AllPackages() {
		for name, mem := range p.Members {
			if f, ok := mem.(*ssa.Function); ok && strings.HasPrefix(name, "Harness_") {
				out = append(out, f)
			}
		}
	}
	sort.Slice(out, func(i, j int) bool { return out[i].Name() < out[j].Name() })
	return out
}

func (P *Program) lookupMethod(t types.Type, meth *types.Func) *ssa.Function {
	pkgPath := ""
	if meth.Pkg() != nil {
		pkgPath = meth.Pkg().Path()
	}
	k := methKey{t.String(), meth.Name(), pkgPath}
	P.mu.Lock()
	defer P.mu.Unlock()
	if f, ok := P.methCache[k]; ok {
		return f
	}
	f := P.Prog.LookupMethod(t, meth.Pkg(), meth.Name())
	P.methCache[k] = f
	return f
}

func (P *Program) implements(t types.Type, i *types.Interface) bool {
	k := implKey{t.String(), i.String()}
	P.mu.Lock()
	defer P.mu.Unlock()
	if r, ok := P.implCache[k]; ok {
		return r
	}
	r := types.Implements(t, i)
	P.implCache[k] = r
	return r
}

// HarnessOverlay builds the overlay map for the harness files under dir:
// a file dir/<name>.go whose first line is `//hcverif:pkg <relative dir in repo>` is
// injected as /repo/<relative dir>/zz_verif_<name>.go.
func HarnessOverlay(repo string, files []string) (map[string][]byte, map[string]string, error) {
	ov := map[string][]byte{}
	real := map[string]string{}
	for _, f := range files {
		b, err := os.ReadFile(f)
		if err != nil {
			return nil, nil, err
		}
		first := strings.SplitN(string(b), "\n", 2)[0]
		const tag = "//hcverif:pkg "
		if !strings.HasPrefix(first, tag) {
			return nil, nil, fmt.Errorf("%s: missing %q header", f, tag)
		}
		rel := strings.TrimSpace(strings.TrimPrefix(first, tag))
		base := strings.TrimSuffix(filepath.Base(f), ".go")
		virt := filepath.Join(repo, rel, "zz_verif_"+base+".go")
		ov[virt] = b
		real[virt] = f
	}
	return ov, real, nil
}
