package sym

// solver.go: persistent SMT solver processes (z3 -in / cvc5 --incremental), all terms
// are defined once at level 0 with define-fun and every query is a check-sat-assuming
// over named Boolean terms, so no push/pop bookkeeping is needed.

import (
	"bufio"
	"bytes"
	"fmt"
	"io"
	"os"
	"os/exec"
	"strconv"
	"strings"
	"time"
)

type Verdict int

const (
	Unsat Verdict = iota
	Sat
	Unknown
)

func (v Verdict) String() string { return [...]string{"unsat", "sat", "unknown"}[v] }

type SolverStats struct {
	Queries   int
	Sat       int
	Unsat     int
	Unknown   int
	Errors    int
	Time      time.Duration
	Fallbacks int
	Restarts  int
}

type Solver struct {
	kind    string // "z3", "z3-new", "cvc5"
	cmd     *exec.Cmd
	in      io.WriteCloser
	out     *bufio.Reader
	defined map[int]bool
	ndef    int
	Stats   SolverStats
	timeout time.Duration
	buf     bytes.Buffer
	LogW    io.Writer // optional transcript
}

func solverArgv(kind string, timeout time.Duration) []string {
	ms := int(timeout / time.Millisecond)
	switch kind {
	case "z3":
		return []string{"z3", "-in", fmt.Sprintf("-t:%d", ms)}
	case "z3-new":
		return []string{"z3-new", "-in", fmt.Sprintf("-t:%d", ms)}
	case "cvc5":
		return []string{"cvc5", "--incremental", "--lang=smt2", "--produce-models", fmt.Sprintf("--tlimit-per=%d", ms)}
	case "cvc5-int":
		return []string{"cvc5", "--incremental", "--lang=smt2", "--produce-models", "--solve-bv-as-int=sum", fmt.Sprintf("--tlimit-per=%d", ms)}
	}
	panic("unknown solver " + kind)
}

func NewSolver(kind string, timeout time.Duration) (*Solver, error) {
	s := &Solver{kind: kind, timeout: timeout}
	if err := s.start(); err != nil {
		return nil, err
	}
	return s, nil
}

func (s *Solver) start() error {
	argv := solverArgv(s.kind, s.timeout)
	cmd := exec.Command(argv[0], argv[1:]...)
	in, err := cmd.StdinPipe()
	if err != nil {
		return err
	}
	out, err := cmd.StdoutPipe()
	if err != nil {
		return err
	}
	cmd.Stderr = cmd.Stdout
	if err := cmd.Start(); err != nil {
		return err
	}
	s.cmd, s.in, s.out = cmd, in, bufio.NewReaderSize(out, 1<<16)
	s.defined = map[int]bool{}
	s.ndef = 0
	s.buf.Reset()
	if strings.HasPrefix(s.kind, "cvc5") {
		s.buf.WriteString("(set-logic ALL)\n")
	}
	s.buf.WriteString("(set-option :produce-models true)\n")
	return nil
}

func (s *Solver) Close() {
	if s.cmd != nil {
		s.in.Close()
		s.cmd.Process.Kill()
		s.cmd.Wait()
		s.cmd = nil
	}
}

func (s *Solver) restart() {
	s.Close()
	s.Stats.Restarts++
	if err := s.start(); err != nil {
		panic(err)
	}
}

// emitDefs writes declarations/definitions for every node reachable from roots that is
// not yet in defined, in dependency order.
func emitDefs(w *bytes.Buffer, defined map[int]bool, roots []*Term) int {
	n := 0
	type fr struct {
		t *Term
		i int
	}
	var stack []fr
	for _, r := range roots {
		if r.Op == OpConst || defined[r.id] {
			continue
		}
		stack = append(stack, fr{r, 0})
		for len(stack) > 0 {
			top := &stack[len(stack)-1]
			if defined[top.t.id] {
				stack = stack[:len(stack)-1]
				continue
			}
			if top.i < len(top.t.Args) {
				a := top.t.Args[top.i]
				top.i++
				if a.Op != OpConst && !defined[a.id] {
					stack = append(stack, fr{a, 0})
				}
				continue
			}
			t := top.t
			stack = stack[:len(stack)-1]
			defined[t.id] = true
			n++
			if t.Op == OpVar {
				fmt.Fprintf(w, "(declare-const %s %s)\n", t.ref(), t.Sort)
			} else {
				fmt.Fprintf(w, "(define-fun %s () %s %s)\n", t.ref(), t.Sort, t.body())
			}
		}
	}
	return n
}

func (s *Solver) send() error {
	if s.LogW != nil {
		s.LogW.Write(s.buf.Bytes())
	}
	_, err := s.in.Write(s.buf.Bytes())
	s.buf.Reset()
	return err
}

func (s *Solver) readVerdict() (Verdict, string) {
	for {
		line, err := s.out.ReadString('\n')
		if err != nil {
			return Unknown, "solver died: " + err.Error()
		}
		line = strings.TrimSpace(line)
		switch {
		case line == "sat":
			return Sat, ""
		case line == "unsat":
			return Unsat, ""
		case line == "unknown" || line == "timeout":
			return Unknown, line
		case strings.HasPrefix(line, "(error"):
			return Unknown, line
		case line == "" || strings.HasPrefix(line, "success"):
			continue
		default:
			// unexpected chatter; treat as error to stay safe
			return Unknown, "unexpected solver output: " + line
		}
	}
}

// MaybeRestart starts a fresh solver process when the current one has accumulated many
// definitions (called between paths only).
func (s *Solver) MaybeRestart() {
	if s.ndef > 300000 {
		s.restart()
	}
}

// Define makes sure t is declared in the solver (sent with the next command).
func (s *Solver) Define(t *Term) {
	s.ndef += emitDefs(&s.buf, s.defined, []*Term{t})
}

// Check decides satisfiability of the conjunction of lits.
func (s *Solver) Check(lits []*Term) (Verdict, string) {
	t0 := time.Now()
	defer func() { s.Stats.Time += time.Since(t0) }()
	s.Stats.Queries++
	// trivial cases
	var use []*Term
	for _, l := range lits {
		if l.IsConst() {
			if l.Val == 0 {
				s.Stats.Unsat++
				return Unsat, ""
			}
			continue
		}
		use = append(use, l)
	}
	s.ndef += emitDefs(&s.buf, s.defined, use)
	s.buf.WriteString("(check-sat-assuming (")
	for _, l := range use {
		s.buf.WriteString(l.ref())
		s.buf.WriteByte(' ')
	}
	s.buf.WriteString("))\n")
	if err := s.send(); err != nil {
		s.Stats.Errors++
		s.restart()
		return Unknown, "write: " + err.Error()
	}
	v, msg := s.readVerdict()
	if d := time.Since(t0); d > 2*time.Second && os.Getenv("HCSYM_DEBUG") != "" {
		fmt.Fprintf(os.Stderr, "slow query %.1fs verdict=%v lits=%d last=%s\n", d.Seconds(), v, len(use), use[len(use)-1].body())
	}
	switch v {
	case Sat:
		s.Stats.Sat++
	case Unsat:
		s.Stats.Unsat++
	default:
		s.Stats.Unknown++
		if strings.Contains(msg, "error") || strings.Contains(msg, "died") || strings.Contains(msg, "unexpected") {
			s.Stats.Errors++
			s.restart()
		}
	}
	return v, msg
}

// Values returns the model values of vars after a Sat answer.
func (s *Solver) Values(vars []*Term) (map[string]uint64, error) {
	res := map[string]uint64{}
	const chunk = 400
	for i := 0; i < len(vars); i += chunk {
		j := i + chunk
		if j > len(vars) {
			j = len(vars)
		}
		s.buf.WriteString("(get-value (")
		n := 0
		for _, v := range vars[i:j] {
			if v.Op != OpVar || !s.defined[v.id] {
				continue
			}
			s.buf.WriteString(v.ref())
			s.buf.WriteByte(' ')
			n++
		}
		if n == 0 {
			s.buf.Reset()
			continue
		}
		s.buf.WriteString("))\n")
		if err := s.send(); err != nil {
			return nil, err
		}
		txt, err := s.readSexp()
		if err != nil {
			return nil, err
		}
		if err := parseValues(txt, res); err != nil {
			return nil, err
		}
	}
	return res, nil
}

func (s *Solver) readSexp() (string, error) {
	var sb strings.Builder
	depth := 0
	started := false
	inBar := false
	for {
		b, err := s.out.ReadByte()
		if err != nil {
			return "", err
		}
		sb.WriteByte(b)
		if inBar {
			if b == '|' {
				inBar = false
			}
			continue
		}
		switch b {
		case '|':
			inBar = true
		case '(':
			depth++
			started = true
		case ')':
			depth--
			if started && depth == 0 {
				// consume rest of line
				s.out.ReadString('\n')
				out := sb.String()
				if strings.HasPrefix(strings.TrimSpace(out), "(error") {
					return "", fmt.Errorf("solver: %s", out)
				}
				return out, nil
			}
		}
	}
}

// parseValues parses ((|name| value) ...) into res.
func parseValues(txt string, res map[string]uint64) error {
	toks := tokenize(txt)
	// expect ( ( name val... ) ( name val ) )
	i := 0
	if len(toks) == 0 || toks[0] != "(" {
		return fmt.Errorf("bad get-value output: %q", txt)
	}
	i = 1
	for i < len(toks) && toks[i] == "(" {
		i++
		name := toks[i]
		i++
		name = strings.Trim(name, "|")
		// value: atom or list
		var val uint64
		if toks[i] == "(" {
			// (_ bvN w)
			j := i
			depth := 0
			var inner []string
			for {
				if toks[j] == "(" {
					depth++
				} else if toks[j] == ")" {
					depth--
				} else {
					inner = append(inner, toks[j])
				}
				j++
				if depth == 0 {
					break
				}
			}
			if len(inner) == 3 && inner[0] == "_" && strings.HasPrefix(inner[1], "bv") {
				v, err := strconv.ParseUint(inner[1][2:], 10, 64)
				if err != nil {
					return err
				}
				val = v
			} else {
				return fmt.Errorf("unsupported model value %v", inner)
			}
			i = j
		} else {
			a := toks[i]
			i++
			switch {
			case a == "true":
				val = 1
			case a == "false":
				val = 0
			case strings.HasPrefix(a, "#x"):
				v, err := strconv.ParseUint(a[2:], 16, 64)
				if err != nil {
					return err
				}
				val = v
			case strings.HasPrefix(a, "#b"):
				v, err := strconv.ParseUint(a[2:], 2, 64)
				if err != nil {
					return err
				}
				val = v
			default:
				return fmt.Errorf("unsupported model atom %q", a)
			}
		}
		if toks[i] != ")" {
			return fmt.Errorf("bad get-value entry near %q", toks[i])
		}
		i++
		res[name] = val
	}
	return nil
}

func tokenize(s string) []string {
	var toks []string
	i := 0
	for i < len(s) {
		c := s[i]
		switch {
		case c == '(' || c == ')':
			toks = append(toks, string(c))
			i++
		case c == ' ' || c == '\n' || c == '\t' || c == '\r':
			i++
		case c == '|':
			j := i + 1
			for j < len(s) && s[j] != '|' {
				j++
			}
			toks = append(toks, s[i:j+1])
			i = j + 1
		default:
			j := i
			for j < len(s) && !strings.ContainsRune("() \n\t\r", rune(s[j])) {
				j++
			}
			toks = append(toks, s[i:j])
			i = j
		}
	}
	return toks
}

var dumpN int

// OneShot runs a fresh solver process on a self-contained script for the conjunction of lits.
func OneShot(kind string, timeout time.Duration, lits []*Term) (Verdict, string, time.Duration) {
	t0 := time.Now()
	var buf bytes.Buffer
	if strings.HasPrefix(kind, "cvc5") {
		buf.WriteString("(set-logic ALL)\n")
	}
	defined := map[int]bool{}
	var use []*Term
	for _, l := range lits {
		if l.IsConst() {
			if l.Val == 0 {
				return Unsat, "", 0
			}
			continue
		}
		use = append(use, l)
	}
	emitDefs(&buf, defined, use)
	for _, l := range use {
		fmt.Fprintf(&buf, "(assert %s)\n", l.ref())
	}
	buf.WriteString("(check-sat)\n")
	if d := os.Getenv("HCSYM_DUMP"); d != "" {
		dumpN++
		os.WriteFile(fmt.Sprintf("%s/q%d-%d.smt2", d, os.Getpid(), dumpN), buf.Bytes(), 0o644)
	}
	argv := solverArgv(kind, timeout)
	// non-incremental invocation
	var args []string
	for _, a := range argv[1:] {
		if a == "--incremental" {
			continue
		}
		args = append(args, a)
	}
	cmd := exec.Command(argv[0], args...)
	cmd.Stdin = &buf
	done := make(chan struct{})
	var out []byte
	var err error
	go func() { out, err = cmd.CombinedOutput(); close(done) }()
	select {
	case <-done:
	case <-time.After(timeout + 5*time.Second):
		if cmd.Process != nil {
			cmd.Process.Kill()
		}
		<-done
		return Unknown, "timeout", time.Since(t0)
	}
	txt := strings.TrimSpace(string(out))
	_ = err
	if strings.Contains(txt, "(error") {
		return Unknown, txt, time.Since(t0)
	}
	lines := strings.Split(txt, "\n")
	last := strings.TrimSpace(lines[len(lines)-1])
	switch last {
	case "sat":
		return Sat, "", time.Since(t0)
	case "unsat":
		return Unsat, "", time.Since(t0)
	}
	return Unknown, txt, time.Since(t0)
}

// OneShotModel runs one query in a fresh solver process with model production and returns
// the values of vars on sat (used when only a fall-back back end could decide a query, so
// that the counterexample can still be replayed natively).
func OneShotModel(kind string, timeout time.Duration, lits []*Term, vars []*Term) (Verdict, map[string]uint64) {
	var buf bytes.Buffer
	buf.WriteString("(set-option :produce-models true)\n")
	if strings.HasPrefix(kind, "cvc5") {
		buf.WriteString("(set-logic ALL)\n")
	}
	defined := map[int]bool{}
	var use []*Term
	for _, l := range lits {
		if l.IsConst() {
			if l.Val == 0 {
				return Unsat, nil
			}
			continue
		}
		use = append(use, l)
	}
	emitDefs(&buf, defined, use)
	for _, l := range use {
		fmt.Fprintf(&buf, "(assert %s)\n", l.ref())
	}
	buf.WriteString("(check-sat)\n")
	var names []string
	for _, v := range vars {
		if v.Op == OpVar && defined[v.id] {
			names = append(names, v.ref())
		}
	}
	const chunk = 200
	for i := 0; i < len(names); i += chunk {
		j := i + chunk
		if j > len(names) {
			j = len(names)
		}
		buf.WriteString("(get-value (" + strings.Join(names[i:j], " ") + "))\n")
	}
	argv := solverArgv(kind, timeout)
	var args []string
	for _, a := range argv[1:] {
		if a == "--incremental" {
			continue
		}
		args = append(args, a)
	}
	cmd := exec.Command(argv[0], args...)
	cmd.Stdin = &buf
	done := make(chan struct{})
	var out []byte
	go func() { out, _ = cmd.CombinedOutput(); close(done) }()
	select {
	case <-done:
	case <-time.After(timeout + 5*time.Second):
		if cmd.Process != nil {
			cmd.Process.Kill()
		}
		<-done
		return Unknown, nil
	}
	txt := strings.TrimSpace(string(out))
	first := txt
	rest := ""
	if i := strings.IndexByte(txt, '\n'); i >= 0 {
		first, rest = strings.TrimSpace(txt[:i]), txt[i+1:]
	}
	switch first {
	case "unsat":
		return Unsat, nil
	case "sat":
	default:
		return Unknown, nil
	}
	res := map[string]uint64{}
	// one s-expression per get-value
	depth, start := 0, -1
	for i := 0; i < len(rest); i++ {
		switch rest[i] {
		case '(':
			if depth == 0 {
				start = i
			}
			depth++
		case ')':
			depth--
			if depth == 0 && start >= 0 {
				if err := parseValues(rest[start:i+1], res); err != nil {
					return Sat, nil
				}
				start = -1
			}
		}
	}
	return Sat, res
}
