package sym

// httpnat.go: the parts of net/http that hc's handlers touch, at the API boundary.
//
//   http.Header.Set/Get/Add/Del   plain map operations (no MIME canonicalisation; hc uses
//                                 canonical names already)
//   (*http.Request).ParseForm     no-op: harnesses fill Request.Form themselves
//   (*http.ServeMux).Handle/HandleFunc   recorder: pattern -> handler; verif.MuxHandler
//                                 returns the handler registered for a pattern (mux
//                                 matching itself is outside the model)

import (
	"go/types"
	"sort"
	"strings"

	"golang.org/x/tools/go/ssa"
	"golang.org/x/tools/go/ssa/ssautil"
)

type muxEntry struct {
	pattern string
	handler value
}

func registerHTTPNatives(P *Program, reg func(string, func(fr *frame, args []value) value)) {
	reg("(net/http.Header).Set", func(fr *frame, a []value) value {
		fr.m.mapSet(a[0].(*mapV), a[1], []value{a[2]})
		return nil
	})
	reg("(net/http.Header).Add", func(fr *frame, a []value) value {
		m := fr.m
		mp := a[0].(*mapV)
		var cur []value
		if e := m.mapFind(mp, a[1]); e != nil {
			cur = e.v.([]value)
		}
		m.mapSet(mp, a[1], append(append([]value(nil), cur...), a[2]))
		return nil
	})
	reg("(net/http.Header).Get", func(fr *frame, a []value) value {
		m := fr.m
		if e := m.mapFind(a[0].(*mapV), a[1]); e != nil {
			if s := e.v.([]value); len(s) > 0 {
				return s[0]
			}
		}
		return ""
	})
	reg("(net/http.Header).Del", func(fr *frame, a []value) value {
		fr.m.mapDelete(a[0].(*mapV), a[1])
		return nil
	})
	reg("(*net/http.Request).ParseForm", func(fr *frame, a []value) value { return iface{} })
	muxes := func(m *Machine) map[*value][]muxEntry {
		t, _ := m.models["mux"].(map[*value][]muxEntry)
		if t == nil {
			t = map[*value][]muxEntry{}
			m.models["mux"] = t
		}
		return t
	}
	reg("net/http.NewServeMux", func(fr *frame, a []value) value {
		m := fr.m
		p := new(value)
		*p = m.zero(typeOfPtrElem(m.P.Func("net/http", "NewServeMux").Signature.Results().At(0).Type()))
		return p
	})
	reg("(*net/http.ServeMux).Handle", func(fr *frame, a []value) value {
		m := fr.m
		p := a[0].(*value)
		muxes(m)[p] = append(muxes(m)[p], muxEntry{m.str(a[1]), a[2]})
		return nil
	})
	reg("(*net/http.ServeMux).HandleFunc", func(fr *frame, a []value) value {
		m := fr.m
		p := a[0].(*value)
		hf := m.P.byPath["net/http"].Type("HandlerFunc").Type()
		muxes(m)[p] = append(muxes(m)[p], muxEntry{m.str(a[1]), iface{t: hf, v: a[2]}})
		return nil
	})
	reg(verifPkg+".MuxHandler", func(fr *frame, a []value) value {
		m := fr.m
		p := a[0].(*value)
		path := m.str(a[1])
		for _, e := range muxes(m)[p] {
			if e.pattern == path {
				return e.handler
			}
		}
		return iface{}
	})
	reg(verifPkg+".MuxPatterns", func(fr *frame, a []value) value {
		m := fr.m
		p := a[0].(*value)
		var out []value
		for _, e := range muxes(m)[p] {
			out = append(out, e.pattern)
		}
		return out
	})
	reg(verifPkg+".EngineOnly", func(fr *frame, a []value) value { return nil })
	reg(verifPkg+".HandleCallSites", func(fr *frame, a []value) value {
		m := fr.m
		var out []value
		for _, site := range m.P.handleCallSites() {
			out = append(out, structure{site.pattern, site.fn, m.tt.Bool(site.wrapped), m.tt.Bool(site.bare)})
		}
		return out
	})
	_ = types.Typ
}

type handleSite struct {
	pattern, fn string
	wrapped     bool // the handler argument is syntactically the result of (*Server).Authenticate
	bare        bool // the handler argument is syntactically an endpoint constructor or a plain function
}

// handleCallSites scans the SSA of every function of brutella/hc for calls of
// (*http.ServeMux).Handle / HandleFunc.
func (P *Program) handleCallSites() []handleSite {
	var out []handleSite
	for fn := range ssautil.AllFunctions(P.Prog) {
		if fn.Pkg == nil || !strings.HasPrefix(fn.Pkg.Pkg.Path(), "github.com/brutella/hc") {
			continue
		}
		if strings.HasPrefix(fn.Name(), "Harness_") || strings.Contains(fn.String(), "zz") && strings.Contains(fn.String(), "Harness") {
			continue
		}
		for _, b := range fn.Blocks {
			for _, ins := range b.Instrs {
				call, ok := ins.(*ssa.Call)
				if !ok {
					continue
				}
				callee := call.Call.StaticCallee()
				if callee == nil {
					continue
				}
				name := callee.String()
				if name != "(*net/http.ServeMux).Handle" && name != "(*net/http.ServeMux).HandleFunc" {
					continue
				}
				pat := "?"
				if c, ok := call.Call.Args[1].(*ssa.Const); ok {
					pat = constString(c)
				}
				h := call.Call.Args[2]
				for {
					switch x := h.(type) {
					case *ssa.MakeInterface:
						h = x.X
						continue
					case *ssa.ChangeInterface:
						h = x.X
						continue
					case *ssa.ChangeType:
						h = x.X
						continue
					}
					break
				}
				wrapped, bare := false, false
				switch c := h.(type) {
				case *ssa.Call:
					if sc := c.Call.StaticCallee(); sc != nil {
						if strings.HasSuffix(sc.String(), "hap/http.Server).Authenticate") {
							wrapped = true
						} else if sc.Pkg != nil && strings.HasSuffix(sc.Pkg.Pkg.Path(), "hap/endpoint") && strings.HasPrefix(sc.Name(), "New") {
							bare = true
						}
					}
				case *ssa.Function, *ssa.MakeClosure:
					// HandleFunc(pattern, f): a plain function or closure, no wrapper in between
					bare = true
				}
				out = append(out, handleSite{pat, fn.String(), wrapped, bare})
			}
		}
	}
	sort.Slice(out, func(i, j int) bool { return out[i].pattern+out[i].fn < out[j].pattern+out[j].fn })
	return out
}
