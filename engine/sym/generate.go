package sym

// generate.go: harness inputs derived from /repo's current sources at check time:
// constructor tables (every zero-argument New* function of a package whose result embeds a
// base type) and embedded data files. The generated Go files are injected next to the
// harness (symbolic run and native cross-check alike).

import (
	"encoding/json"
	"fmt"
	"go/ast"
	"go/parser"
	"go/token"
	"os"
	"path/filepath"
	"sort"
	"strconv"
	"strings"
)

type genItem struct {
	Kind        string `json:"kind"`          // "ctors" | "embed"
	Dir         string `json:"dir"`           // package directory relative to the repo root
	Base        string `json:"base"`          // ctors: base type name (Characteristic, Service, Accessory)
	Table       string `json:"table"`         // ctors: name of the generated table variable
	File        string `json:"file"`          // embed: file relative to the repo root
	Const       string `json:"const"`         // embed: name of the generated string constant
	NoTypeConst bool   `json:"no_type_const"` // ctors: Type<Name> constants are not strings
}

// Generate produces the overlay files requested by harness/<prop>/generate.json.
// It returns virtual path -> real (temporary) path.
func Generate(repo, hdir, tmp string) (map[string]string, error) {
	b, err := os.ReadFile(filepath.Join(hdir, "generate.json"))
	if err != nil {
		return nil, nil
	}
	var items []genItem
	if err := json.Unmarshal(b, &items); err != nil {
		return nil, fmt.Errorf("generate.json: %v", err)
	}
	out := map[string]string{}
	for i, it := range items {
		dir := filepath.Join(repo, it.Dir)
		pkgName, err := packageName(dir)
		if err != nil {
			return nil, err
		}
		var src string
		switch it.Kind {
		case "embed":
			data, err := os.ReadFile(filepath.Join(repo, it.File))
			if err != nil {
				return nil, err
			}
			src = fmt.Sprintf("package %s\n\n// generated from %s at check time\nconst %s = %s\n", pkgName, it.File, it.Const, strconv.Quote(string(data)))
		case "ctors":
			src, err = genCtors(dir, pkgName, it)
			if err != nil {
				return nil, err
			}
		default:
			return nil, fmt.Errorf("generate.json: unknown kind %q", it.Kind)
		}
		real := filepath.Join(tmp, fmt.Sprintf("gen_%d_%s.go", i, strings.ReplaceAll(it.Dir, "/", "_")))
		if err := os.WriteFile(real, []byte(src), 0o644); err != nil {
			return nil, err
		}
		out[filepath.Join(dir, fmt.Sprintf("zz_verif_gen_%d.go", i))] = real
	}
	return out, nil
}

func genCtors(dir, pkgName string, it genItem) (string, error) {
	fset := token.NewFileSet()
	pkgs, err := parser.ParseDir(fset, dir, func(fi os.FileInfo) bool {
		return !strings.HasSuffix(fi.Name(), "_test.go") && !strings.HasPrefix(fi.Name(), "zz_verif")
	}, 0)
	if err != nil {
		return "", err
	}
	embeds := map[string][]string{} // type -> embedded type names
	consts := map[string]bool{}
	type ctor struct {
		name, result string
		infoParam    bool
	}
	var ctors []ctor
	for _, p := range pkgs {
		for _, f := range p.Files {
			for _, d := range f.Decls {
				switch d := d.(type) {
				case *ast.GenDecl:
					for _, sp := range d.Specs {
						switch sp := sp.(type) {
						case *ast.TypeSpec:
							if st, ok := sp.Type.(*ast.StructType); ok {
								for _, fld := range st.Fields.List {
									if len(fld.Names) == 0 {
										embeds[sp.Name.Name] = append(embeds[sp.Name.Name], typeIdent(fld.Type))
									}
								}
							}
						case *ast.ValueSpec:
							if d.Tok == token.CONST {
								for _, n := range sp.Names {
									consts[n.Name] = true
								}
							}
						}
					}
				case *ast.FuncDecl:
					if d.Recv != nil || !strings.HasPrefix(d.Name.Name, "New") || !d.Name.IsExported() {
						continue
					}
					if d.Type.Results == nil || len(d.Type.Results.List) != 1 {
						continue
					}
					star, ok := d.Type.Results.List[0].Type.(*ast.StarExpr)
					if !ok {
						continue
					}
					res := typeIdent(star.X)
					np := 0
					info := false
					for _, p := range d.Type.Params.List {
						k := len(p.Names)
						if k == 0 {
							k = 1
						}
						np += k
						if typeIdent(p.Type) == "Info" {
							info = true
						}
					}
					if np == 0 || (np == 1 && info) {
						ctors = append(ctors, ctor{d.Name.Name, res, info})
					}
				}
			}
		}
	}
	var reaches func(t string, depth int) bool
	reaches = func(t string, depth int) bool {
		if t == it.Base {
			return true
		}
		if depth > 6 {
			return false
		}
		for _, e := range embeds[t] {
			if reaches(e, depth+1) {
				return true
			}
		}
		return false
	}
	sort.Slice(ctors, func(i, j int) bool { return ctors[i].name < ctors[j].name })
	var sb strings.Builder
	fmt.Fprintf(&sb, "package %s\n\n// generated at check time from the New* functions found in this package\n\n", pkgName)
	fmt.Fprintf(&sb, "type %sEntry struct {\n\tName string\n\tTypeConst string\n\tHasTypeConst bool\n\tMake func() *%s\n}\n\n", it.Table, it.Base)
	fmt.Fprintf(&sb, "var %s = []%sEntry{\n", it.Table, it.Table)
	n := 0
	for _, c := range ctors {
		if c.result == it.Base || !reaches(c.result, 0) {
			continue
		}
		tc := "Type" + strings.TrimPrefix(c.name, "New")
		tcExpr, has := `""`, "false"
		if consts[tc] && !it.NoTypeConst {
			tcExpr, has = tc, "true"
		}
		arg := ""
		if c.infoParam {
			arg = `Info{Name: "zz-name", SerialNumber: "zz-serial", Manufacturer: "zz-manufacturer", Model: "zz-model", FirmwareRevision: "1.0"}`
		}
		fmt.Fprintf(&sb, "\t{%q, %s, %s, func() *%s { return %s(%s).%s }},\n", c.name, tcExpr, has, it.Base, c.name, arg, it.Base)
		n++
	}
	sb.WriteString("}\n")
	if n == 0 {
		return "", fmt.Errorf("no constructors found in %s for base %s", dir, it.Base)
	}
	return sb.String(), nil
}

func typeIdent(e ast.Expr) string {
	switch e := e.(type) {
	case *ast.Ident:
		return e.Name
	case *ast.StarExpr:
		return typeIdent(e.X)
	case *ast.SelectorExpr:
		return e.Sel.Name
	}
	return ""
}
