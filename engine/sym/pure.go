package sym

// pure.go: if-conversion for side-effect-free functions. When a function that performs no
// stores, allocations or impure calls and has an acyclic CFG branches on a symbolic
// condition, both arms are executed to their Return and the results are merged with ite
// instead of forking the exploration (e.g. clampInt, util.btoh, small comparison helpers).
// Any decision, run-time panic or unsupported construct inside an arm abandons the merge
// and the ordinary fork is taken, so this is an optimisation only.

import (
	"go/types"

	"golang.org/x/tools/go/ssa"
)

type specAbort struct{}

const (
	pureUnknown = iota
	pureComputing
	pureYes
	pureNo
)

func (m *Machine) isPure(fn *ssa.Function) bool {
	in := m.info(fn)
	switch in.pure {
	case pureYes:
		return true
	case pureNo, pureComputing:
		return false
	}
	in.pure = pureComputing
	ok := m.computePure(fn, in)
	if ok {
		in.pure = pureYes
	} else {
		in.pure = pureNo
	}
	return ok
}

func (m *Machine) computePure(fn *ssa.Function, in *fnInfo) bool {
	if fn.Blocks == nil || fn.Recover != nil || in.nat != nil || in.target != fn {
		return false
	}
	if len(fn.Blocks) > 40 {
		return false
	}
	// acyclic?
	state := make([]int, len(fn.Blocks))
	var dfs func(b *ssa.BasicBlock) bool
	dfs = func(b *ssa.BasicBlock) bool {
		switch state[b.Index] {
		case 1:
			return false
		case 2:
			return true
		}
		state[b.Index] = 1
		for _, s := range b.Succs {
			if !dfs(s) {
				return false
			}
		}
		state[b.Index] = 2
		return true
	}
	if !dfs(fn.Blocks[0]) {
		return false
	}
	for _, b := range fn.Blocks {
		for _, ins := range b.Instrs {
			switch ins := ins.(type) {
			case *ssa.BinOp, *ssa.Convert, *ssa.ChangeType, *ssa.ChangeInterface, *ssa.Phi, *ssa.If, *ssa.Jump,
				*ssa.Return, *ssa.Extract, *ssa.Field, *ssa.MakeInterface, *ssa.TypeAssert, *ssa.DebugRef,
				*ssa.FieldAddr, *ssa.IndexAddr, *ssa.Index, *ssa.Slice:
			case *ssa.UnOp:
				if ins.Op.String() == "<-" {
					return false
				}
			case *ssa.Call:
				if ins.Call.IsInvoke() {
					return false
				}
				switch callee := ins.Call.Value.(type) {
				case *ssa.Builtin:
					switch callee.Name() {
					case "len", "cap", "min", "max":
					default:
						return false
					}
				case *ssa.Function:
					if !m.isPure(callee) {
						return false
					}
				default:
					return false
				}
			default:
				return false
			}
		}
	}
	return true
}

// tryMergeIf attempts the if-conversion at a symbolic If of a pure function.
func (fr *frame) tryMergeIf(instr *ssa.If, cond *Term) bool {
	m := fr.m
	if m.speculative > 8 || !m.isPure(fr.fn) {
		return false
	}
	r0, ok := fr.runArm(fr.block.Succs[0])
	if !ok {
		return false
	}
	r1, ok := fr.runArm(fr.block.Succs[1])
	if !ok {
		return false
	}
	res, ok := m.mergeValues(cond, r0, r1)
	if !ok {
		return false
	}
	fr.result = res
	return true
}

func (fr *frame) runArm(start *ssa.BasicBlock) (res value, ok bool) {
	m := fr.m
	arm := &frame{m: m, caller: fr.caller, fn: fr.fn, info: fr.info, depth: fr.depth}
	arm.env = append([]value(nil), fr.env...)
	arm.prev, arm.block = fr.block, start
	savedFrame, savedDepth, savedSteps := m.curFrame, m.depth, m.steps
	m.speculative++
	defer func() {
		m.speculative--
		m.curFrame, m.depth = savedFrame, savedDepth
		if r := recover(); r != nil {
			switch r.(type) {
			case specAbort, targetPanic:
				ok = false
			case pathAbort:
				if r.(pathAbort).kind == abortUnsupported {
					ok = false
					return
				}
				panic(r)
			default:
				panic(r)
			}
		}
		_ = savedSteps
	}()
	m.curFrame = arm
	for arm.block != nil {
		arm.runBlocks()
	}
	return arm.result, true
}

func (m *Machine) mergeValues(c *Term, a, b value) (value, bool) {
	switch x := a.(type) {
	case nil:
		if b == nil {
			return nil, true
		}
	case *Term:
		if y, ok := b.(*Term); ok && x.Sort == y.Sort {
			return m.tt.Ite(c, x, y), true
		}
	case string:
		if y, ok := b.(string); ok && x == y {
			return x, true
		}
		if strLen(a) == func() int {
			switch b.(type) {
			case string, symString:
				return strLen(b)
			}
			return -1
		}() {
			xb, yb := m.strBytes(a), m.strBytes(b)
			out := make([]*Term, len(xb))
			for i := range xb {
				out[i] = m.tt.Ite(c, xb[i], yb[i])
			}
			return m.mkString(out), true
		}
	case symString:
		switch b.(type) {
		case string, symString:
			if strLen(a) == strLen(b) {
				xb, yb := m.strBytes(a), m.strBytes(b)
				out := make([]*Term, len(xb))
				for i := range xb {
					out[i] = m.tt.Ite(c, xb[i], yb[i])
				}
				return m.mkString(out), true
			}
		}
	case tuple:
		if y, ok := b.(tuple); ok && len(x) == len(y) {
			out := make(tuple, len(x))
			for i := range x {
				v, ok := m.mergeValues(c, x[i], y[i])
				if !ok {
					return nil, false
				}
				out[i] = v
			}
			return out, true
		}
	case structure:
		if y, ok := b.(structure); ok && len(x) == len(y) {
			out := make(structure, len(x))
			for i := range x {
				v, ok := m.mergeValues(c, x[i], y[i])
				if !ok {
					return nil, false
				}
				out[i] = v
			}
			return out, true
		}
	case array:
		if y, ok := b.(array); ok && len(x) == len(y) {
			out := make(array, len(x))
			for i := range x {
				v, ok := m.mergeValues(c, x[i], y[i])
				if !ok {
					return nil, false
				}
				out[i] = v
			}
			return out, true
		}
	case iface:
		if y, ok := b.(iface); ok {
			if x.t == nil && y.t == nil {
				return x, true
			}
			if x.t != nil && y.t != nil && types.Identical(x.t, y.t) {
				v, ok := m.mergeValues(c, x.v, y.v)
				if !ok {
					return nil, false
				}
				return iface{t: x.t, v: v}, true
			}
		}
	case *value:
		if y, ok := b.(*value); ok && x == y {
			return x, true
		}
	}
	return nil, false
}
