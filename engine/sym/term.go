// Package sym is the symbolic executor for Go SSA used by hcsym.
//
// term.go: hash-consed SMT terms with constant folding and an SMT-LIB2 printer.
package sym

import (
	"fmt"
	"math"
	"math/bits"
	"strings"
)

type SortKind uint8

const (
	SBool SortKind = iota
	SBV
	SFP
)

type Sort struct {
	K SortKind
	W int // bit width for BV; 32/64 for FP
}

var BoolSort = Sort{SBool, 0}

func BV(w int) Sort { return Sort{SBV, w} }
func FP(w int) Sort { return Sort{SFP, w} }

func (s Sort) String() string {
	switch s.K {
	case SBool:
		return "Bool"
	case SBV:
		return fmt.Sprintf("(_ BitVec %d)", s.W)
	default:
		if s.W == 32 {
			return "(_ FloatingPoint 8 24)"
		}
		return "(_ FloatingPoint 11 53)"
	}
}

type Op uint8

const (
	OpConst Op = iota
	OpVar
	OpNot
	OpAnd
	OpOr
	OpIte
	OpEq
	OpAdd
	OpSub
	OpMul
	OpUDiv
	OpURem
	OpSDiv
	OpSRem
	OpBAnd
	OpBOr
	OpBXor
	OpBNot
	OpNeg
	OpShl
	OpLShr
	OpAShr
	OpULt
	OpULe
	OpSLt
	OpSLe
	OpConcat
	OpExtract // x0 = hi, x1 = lo
	OpZExt    // x0 = extra bits
	OpSExt
	// floating point
	OpFAdd
	OpFSub
	OpFMul
	OpFDiv
	OpFNeg
	OpFLt
	OpFLe
	OpFEq
	OpFIsNaN
	OpFFromSBV // to_fp from signed bv
	OpFFromUBV
	OpFFromFP // precision change
	OpFToSBV  // x0 = width; RTZ
	OpFToUBV
	OpFFromBits // reinterpret BV as FP
	OpFIsInf
)

var opNames = map[Op]string{
	OpNot: "not", OpAnd: "and", OpOr: "or", OpIte: "ite", OpEq: "=",
	OpAdd: "bvadd", OpSub: "bvsub", OpMul: "bvmul", OpUDiv: "bvudiv", OpURem: "bvurem",
	OpSDiv: "bvsdiv", OpSRem: "bvsrem", OpBAnd: "bvand", OpBOr: "bvor", OpBXor: "bvxor",
	OpBNot: "bvnot", OpNeg: "bvneg", OpShl: "bvshl", OpLShr: "bvlshr", OpAShr: "bvashr",
	OpULt: "bvult", OpULe: "bvule", OpSLt: "bvslt", OpSLe: "bvsle", OpConcat: "concat",
	OpFAdd: "fp.add RNE", OpFSub: "fp.sub RNE", OpFMul: "fp.mul RNE", OpFDiv: "fp.div RNE",
	OpFNeg: "fp.neg", OpFLt: "fp.lt", OpFLe: "fp.leq", OpFEq: "fp.eq", OpFIsNaN: "fp.isNaN", OpFIsInf: "fp.isInfinite",
}

type Term struct {
	id   int
	Op   Op
	Sort Sort
	Args []*Term
	Val  uint64 // constants (bool: 0/1; BV: value masked; FP: IEEE bits)
	Name string // variables
	X0   int
	X1   int
	FP   bool // contains floating-point operations
}

type termKey struct {
	op         Op
	sort       Sort
	a0, a1, a2 int
	x0, x1     int
}

type constKey struct {
	sort Sort
	val  uint64
}

// TermTable owns all terms of one worker.
type TermTable struct {
	tab    map[termKey]*Term
	consts map[constKey]*Term
	vars   map[string]*Term
	nary   map[string]*Term
	nextID int
	// SymFolds counts simplifications that turned an expression over non-constant
	// operands into a constant (e.g. x = x); used to tell obligations that were decided
	// for all inputs by term normalisation from ground ones.
	SymFolds int
	True     *Term
	False  *Term
	small  [4][256]*Term // BV8, BV16, BV32, BV64 small constants
}

func NewTermTable() *TermTable {
	tt := &TermTable{tab: map[termKey]*Term{}, consts: map[constKey]*Term{}, vars: map[string]*Term{}, nary: map[string]*Term{}, nextID: 1}
	tt.True = tt.Const(BoolSort, 1)
	tt.False = tt.Const(BoolSort, 0)
	return tt
}

func mask(w int) uint64 {
	if w >= 64 {
		return ^uint64(0)
	}
	return (uint64(1) << uint(w)) - 1
}

func (tt *TermTable) Const(s Sort, v uint64) *Term {
	if s.K == SBV {
		v &= mask(s.W)
		if v < 256 {
			var idx int
			switch s.W {
			case 8:
				idx = 0
			case 16:
				idx = 1
			case 32:
				idx = 2
			case 64:
				idx = 3
			default:
				idx = -1
			}
			if idx >= 0 {
				if t := tt.small[idx][v]; t != nil {
					return t
				}
				t := &Term{id: tt.nextID, Op: OpConst, Sort: s, Val: v}
				tt.nextID++
				tt.small[idx][v] = t
				return t
			}
		}
	}
	k := constKey{s, v}
	if t, ok := tt.consts[k]; ok {
		return t
	}
	t := &Term{id: tt.nextID, Op: OpConst, Sort: s, Val: v}
	tt.nextID++
	tt.consts[k] = t
	return t
}

func (tt *TermTable) Bool(b bool) *Term {
	if b {
		return tt.True
	}
	return tt.False
}

func (tt *TermTable) Var(name string, s Sort) *Term {
	if t, ok := tt.vars[name]; ok {
		if t.Sort != s {
			panic(fmt.Sprintf("variable %s redeclared with sort %v (was %v)", name, s, t.Sort))
		}
		return t
	}
	t := &Term{id: tt.nextID, Op: OpVar, Sort: s, Name: name}
	tt.nextID++
	tt.vars[name] = t
	return t
}

func (t *Term) IsConst() bool { return t.Op == OpConst }
func (t *Term) IsTrue() bool  { return t.Op == OpConst && t.Sort.K == SBool && t.Val == 1 }
func (t *Term) IsFalse() bool { return t.Op == OpConst && t.Sort.K == SBool && t.Val == 0 }

// SVal returns the constant sign-extended to int64.
func (t *Term) SVal() int64 {
	w := t.Sort.W
	if w >= 64 {
		return int64(t.Val)
	}
	v := t.Val
	if v&(1<<uint(w-1)) != 0 {
		v |= ^mask(w)
	}
	return int64(v)
}

func (tt *TermTable) mk(op Op, s Sort, x0, x1 int, args ...*Term) *Term {
	k := termKey{op: op, sort: s, x0: x0, x1: x1}
	switch len(args) {
	case 3:
		k.a2 = args[2].id
		fallthrough
	case 2:
		k.a1 = args[1].id
		fallthrough
	case 1:
		k.a0 = args[0].id
	}
	if t, ok := tt.tab[k]; ok {
		return t
	}
	t := &Term{id: tt.nextID, Op: op, Sort: s, Args: append([]*Term(nil), args...), X0: x0, X1: x1}
	t.FP = s.K == SFP || op >= OpFAdd
	for _, a := range args {
		if a.FP {
			t.FP = true
		}
	}
	tt.nextID++
	tt.tab[k] = t
	return t
}

// ---- boolean ----

func (tt *TermTable) Not(a *Term) *Term {
	if a.IsConst() {
		return tt.Bool(a.Val == 0)
	}
	if a.Op == OpNot {
		return a.Args[0]
	}
	return tt.mk(OpNot, BoolSort, 0, 0, a)
}

func (tt *TermTable) And(a, b *Term) *Term {
	if a.IsConst() {
		if a.Val == 0 {
			return tt.False
		}
		return b
	}
	if b.IsConst() {
		if b.Val == 0 {
			return tt.False
		}
		return a
	}
	if a == b {
		return a
	}
	return tt.mk(OpAnd, BoolSort, 0, 0, a, b)
}

func (tt *TermTable) Or(a, b *Term) *Term {
	if a.IsConst() {
		if a.Val == 1 {
			return tt.True
		}
		return b
	}
	if b.IsConst() {
		if b.Val == 1 {
			return tt.True
		}
		return a
	}
	if a == b {
		return a
	}
	return tt.mk(OpOr, BoolSort, 0, 0, a, b)
}

// AndN builds a balanced conjunction.
func (tt *TermTable) AndN(ts []*Term) *Term {
	switch len(ts) {
	case 0:
		return tt.True
	case 1:
		return ts[0]
	}
	m := len(ts) / 2
	return tt.And(tt.AndN(ts[:m]), tt.AndN(ts[m:]))
}

func (tt *TermTable) OrN(ts []*Term) *Term {
	switch len(ts) {
	case 0:
		return tt.False
	case 1:
		return ts[0]
	}
	m := len(ts) / 2
	return tt.Or(tt.OrN(ts[:m]), tt.OrN(ts[m:]))
}

func (tt *TermTable) Ite(c, a, b *Term) *Term {
	if c.IsConst() {
		if c.Val == 1 {
			return a
		}
		return b
	}
	if a == b {
		return a
	}
	if a.Sort.K == SBool {
		if a.IsConst() && b.IsConst() {
			if a.Val == 1 {
				return c
			}
			return tt.Not(c)
		}
	}
	return tt.mk(OpIte, a.Sort, 0, 0, c, a, b)
}

func (tt *TermTable) Eq(a, b *Term) *Term {
	if a == b {
		if !a.IsConst() {
			tt.SymFolds++
		}
		if a.Sort.K == SFP {
			// structural equality of FP terms; used only for Go == via FEq.
			return tt.mk(OpEq, BoolSort, 0, 0, a, b)
		}
		return tt.True
	}
	if a.Sort != b.Sort {
		panic(fmt.Sprintf("Eq: sort mismatch %v vs %v", a.Sort, b.Sort))
	}
	if a.IsConst() && b.IsConst() {
		return tt.Bool(a.Val == b.Val)
	}
	if a.Sort.K == SBool {
		if a.IsConst() {
			if a.Val == 1 {
				return b
			}
			return tt.Not(b)
		}
		if b.IsConst() {
			if b.Val == 1 {
				return a
			}
			return tt.Not(a)
		}
	}
	if a.id > b.id {
		a, b = b, a
	}
	return tt.mk(OpEq, BoolSort, 0, 0, a, b)
}

// ---- bit-vectors ----

func (tt *TermTable) Bin(op Op, a, b *Term) *Term {
	if a.Sort != b.Sort {
		panic(fmt.Sprintf("Bin %v: sort mismatch %v vs %v", opNames[op], a.Sort, b.Sort))
	}
	w := a.Sort.W
	res := a.Sort
	switch op {
	case OpULt, OpULe, OpSLt, OpSLe:
		res = BoolSort
	}
	if a.IsConst() && b.IsConst() {
		x, y := a.Val, b.Val
		sx, sy := a.SVal(), b.SVal()
		switch op {
		case OpAdd:
			return tt.Const(res, x+y)
		case OpSub:
			return tt.Const(res, x-y)
		case OpMul:
			return tt.Const(res, x*y)
		case OpUDiv:
			if y == 0 {
				return tt.Const(res, mask(w))
			}
			return tt.Const(res, x/y)
		case OpURem:
			if y == 0 {
				return tt.Const(res, x)
			}
			return tt.Const(res, x%y)
		case OpSDiv:
			if sy == 0 {
				if sx < 0 {
					return tt.Const(res, 1)
				}
				return tt.Const(res, mask(w))
			}
			if sy == -1 {
				return tt.Const(res, uint64(-sx))
			}
			return tt.Const(res, uint64(sx/sy))
		case OpSRem:
			if sy == 0 {
				return tt.Const(res, x)
			}
			if sy == -1 {
				return tt.Const(res, 0)
			}
			return tt.Const(res, uint64(sx%sy))
		case OpBAnd:
			return tt.Const(res, x&y)
		case OpBOr:
			return tt.Const(res, x|y)
		case OpBXor:
			return tt.Const(res, x^y)
		case OpShl:
			if y >= uint64(w) {
				return tt.Const(res, 0)
			}
			return tt.Const(res, x<<y)
		case OpLShr:
			if y >= uint64(w) {
				return tt.Const(res, 0)
			}
			return tt.Const(res, x>>y)
		case OpAShr:
			if y >= uint64(w) {
				y = uint64(w - 1)
			}
			return tt.Const(res, uint64(sx>>y))
		case OpULt:
			return tt.Bool(x < y)
		case OpULe:
			return tt.Bool(x <= y)
		case OpSLt:
			return tt.Bool(sx < sy)
		case OpSLe:
			return tt.Bool(sx <= sy)
		}
	}
	// light algebraic simplification
	switch op {
	case OpAdd, OpBOr, OpBXor:
		if a.IsConst() && a.Val == 0 {
			return b
		}
		if b.IsConst() && b.Val == 0 {
			return a
		}
	case OpSub, OpShl, OpLShr, OpAShr:
		if b.IsConst() && b.Val == 0 {
			return a
		}
	case OpBAnd:
		if a.IsConst() && a.Val == 0 || b.IsConst() && b.Val == 0 {
			return tt.Const(res, 0)
		}
		if a.IsConst() && a.Val == mask(w) {
			return b
		}
		if b.IsConst() && b.Val == mask(w) {
			return a
		}
	case OpMul:
		if a.IsConst() && a.Val == 1 {
			return b
		}
		if b.IsConst() && b.Val == 1 {
			return a
		}
		if a.IsConst() && a.Val == 0 || b.IsConst() && b.Val == 0 {
			return tt.Const(res, 0)
		}
	}
	if a == b {
		tt.SymFolds++
		switch op {
		case OpULe, OpSLe:
			return tt.True
		case OpULt, OpSLt:
			return tt.False
		case OpSub, OpBXor:
			return tt.Const(res, 0)
		case OpBAnd, OpBOr:
			return a
		}
	}
	// shifts by a constant of a zero-extended / masked byte etc. are left to the solver,
	// except: (lshr (zext8->w x) c) with c >= 8 is 0; handled by extract simplification below.
	if op == OpLShr && b.IsConst() && a.Op == OpZExt {
		inner := a.Args[0]
		if b.Val >= uint64(inner.Sort.W) {
			return tt.Const(res, 0)
		}
	}
	return tt.mk(op, res, 0, 0, a, b)
}

func (tt *TermTable) BNot(a *Term) *Term {
	if a.IsConst() {
		return tt.Const(a.Sort, ^a.Val)
	}
	return tt.mk(OpBNot, a.Sort, 0, 0, a)
}

func (tt *TermTable) Neg(a *Term) *Term {
	if a.IsConst() {
		return tt.Const(a.Sort, -a.Val)
	}
	return tt.mk(OpNeg, a.Sort, 0, 0, a)
}

func (tt *TermTable) Extract(a *Term, hi, lo int) *Term {
	w := hi - lo + 1
	if w == a.Sort.W {
		return a
	}
	if a.IsConst() {
		return tt.Const(BV(w), a.Val>>uint(lo))
	}
	switch a.Op {
	case OpZExt:
		inner := a.Args[0]
		if hi < inner.Sort.W {
			return tt.Extract(inner, hi, lo)
		}
		if lo >= inner.Sort.W {
			return tt.Const(BV(w), 0)
		}
		if lo == 0 {
			return tt.ZExt(inner, w)
		}
	case OpSExt:
		inner := a.Args[0]
		if hi < inner.Sort.W {
			return tt.Extract(inner, hi, lo)
		}
	case OpConcat:
		lowPart := a.Args[1]
		if hi < lowPart.Sort.W {
			return tt.Extract(lowPart, hi, lo)
		}
		if lo >= lowPart.Sort.W {
			return tt.Extract(a.Args[0], hi-lowPart.Sort.W, lo-lowPart.Sort.W)
		}
	case OpExtract:
		return tt.Extract(a.Args[0], hi+a.X1, lo+a.X1)
	case OpLShr:
		// extract of (x >> c) == extract of x shifted, when in range
		if c := a.Args[1]; c.IsConst() && int(c.Val)+hi < a.Sort.W {
			return tt.Extract(a.Args[0], hi+int(c.Val), lo+int(c.Val))
		}
	case OpBOr, OpBAnd, OpBXor:
		// distribute over bitwise ops when one side is constant or zext/shl (typical for byte packing)
		x, y := a.Args[0], a.Args[1]
		if packish(x) || packish(y) {
			return tt.Bin(a.Op, tt.Extract(x, hi, lo), tt.Extract(y, hi, lo))
		}
	case OpShl:
		if c := a.Args[1]; c.IsConst() {
			sh := int(c.Val)
			if lo >= sh {
				if hi-sh < a.Sort.W {
					return tt.Extract(a.Args[0], hi-sh, lo-sh)
				}
			} else if hi < sh {
				return tt.Const(BV(w), 0)
			}
		}
	}
	return tt.mk(OpExtract, BV(w), hi, lo, a)
}

func packish(t *Term) bool {
	switch t.Op {
	case OpConst, OpZExt, OpShl, OpBOr, OpConcat:
		return true
	}
	return false
}

// ZExt extends a to width w.
func (tt *TermTable) ZExt(a *Term, w int) *Term {
	if w == a.Sort.W {
		return a
	}
	if w < a.Sort.W {
		return tt.Extract(a, w-1, 0)
	}
	if a.IsConst() {
		return tt.Const(BV(w), a.Val)
	}
	if a.Op == OpZExt {
		return tt.ZExt(a.Args[0], w)
	}
	return tt.mk(OpZExt, BV(w), w-a.Sort.W, 0, a)
}

func (tt *TermTable) SExt(a *Term, w int) *Term {
	if w == a.Sort.W {
		return a
	}
	if w < a.Sort.W {
		return tt.Extract(a, w-1, 0)
	}
	if a.IsConst() {
		return tt.Const(BV(w), uint64(a.SVal()))
	}
	if a.Op == OpZExt {
		return tt.ZExt(a.Args[0], w)
	}
	return tt.mk(OpSExt, BV(w), w-a.Sort.W, 0, a)
}

func (tt *TermTable) Concat(hi, lo *Term) *Term {
	w := hi.Sort.W + lo.Sort.W
	if hi.IsConst() && lo.IsConst() && w <= 64 {
		return tt.Const(BV(w), hi.Val<<uint(lo.Sort.W)|lo.Val)
	}
	return tt.mk(OpConcat, BV(w), 0, 0, hi, lo)
}

// ---- floating point ----

func fpConstBits(s Sort, f float64) uint64 {
	if s.W == 32 {
		return uint64(math.Float32bits(float32(f)))
	}
	return math.Float64bits(f)
}

func fpConstVal(t *Term) float64 {
	if t.Sort.W == 32 {
		return float64(math.Float32frombits(uint32(t.Val)))
	}
	return math.Float64frombits(t.Val)
}

func (tt *TermTable) FConst(s Sort, f float64) *Term { return tt.Const(s, fpConstBits(s, f)) }

func (tt *TermTable) FBin(op Op, a, b *Term) *Term {
	res := a.Sort
	switch op {
	case OpFLt, OpFLe, OpFEq:
		res = BoolSort
	}
	if a.IsConst() && b.IsConst() {
		x, y := fpConstVal(a), fpConstVal(b)
		switch op {
		case OpFAdd:
			if a.Sort.W == 32 {
				return tt.FConst(a.Sort, float64(float32(x)+float32(y)))
			}
			return tt.FConst(a.Sort, x+y)
		case OpFSub:
			if a.Sort.W == 32 {
				return tt.FConst(a.Sort, float64(float32(x)-float32(y)))
			}
			return tt.FConst(a.Sort, x-y)
		case OpFMul:
			if a.Sort.W == 32 {
				return tt.FConst(a.Sort, float64(float32(x)*float32(y)))
			}
			return tt.FConst(a.Sort, x*y)
		case OpFDiv:
			if a.Sort.W == 32 {
				return tt.FConst(a.Sort, float64(float32(x)/float32(y)))
			}
			return tt.FConst(a.Sort, x/y)
		case OpFLt:
			return tt.Bool(x < y)
		case OpFLe:
			return tt.Bool(x <= y)
		case OpFEq:
			return tt.Bool(x == y)
		}
	}
	return tt.mk(op, res, 0, 0, a, b)
}

func (tt *TermTable) FNeg(a *Term) *Term {
	if a.IsConst() {
		return tt.FConst(a.Sort, -fpConstVal(a))
	}
	return tt.mk(OpFNeg, a.Sort, 0, 0, a)
}

func (tt *TermTable) FIsNaN(a *Term) *Term {
	if a.IsConst() {
		return tt.Bool(math.IsNaN(fpConstVal(a)))
	}
	return tt.mk(OpFIsNaN, BoolSort, 0, 0, a)
}

func (tt *TermTable) FIsInf(a *Term) *Term {
	if a.IsConst() {
		return tt.Bool(math.IsInf(fpConstVal(a), 0))
	}
	return tt.mk(OpFIsInf, BoolSort, 0, 0, a)
}

// FFromInt converts a BV (signed or unsigned) to FP of sort s.
func (tt *TermTable) FFromInt(a *Term, signed bool, s Sort) *Term {
	if a.IsConst() {
		if signed {
			return tt.FConst(s, float64(a.SVal()))
		}
		return tt.FConst(s, float64(a.Val))
	}
	if signed {
		return tt.mk(OpFFromSBV, s, 0, 0, a)
	}
	return tt.mk(OpFFromUBV, s, 0, 0, a)
}

func (tt *TermTable) FFromFP(a *Term, s Sort) *Term {
	if a.Sort == s {
		return a
	}
	if a.IsConst() {
		return tt.FConst(s, fpConstVal(a))
	}
	return tt.mk(OpFFromFP, s, 0, 0, a)
}

func (tt *TermTable) FFromBits(a *Term) *Term {
	s := FP(a.Sort.W)
	if a.IsConst() {
		return tt.Const(s, a.Val)
	}
	return tt.mk(OpFFromBits, s, 0, 0, a)
}

// FToInt is the raw SMT conversion (RTZ); unspecified when out of range.
// Callers guard the out-of-range cases.
func (tt *TermTable) FToInt(a *Term, signed bool, w int) *Term {
	if signed {
		return tt.mk(OpFToSBV, BV(w), w, 0, a)
	}
	return tt.mk(OpFToUBV, BV(w), w, 0, a)
}

// ---- printing ----

func bvLit(w int, v uint64) string {
	if w%4 == 0 {
		return fmt.Sprintf("#x%0*x", w/4, v&mask(w))
	}
	return fmt.Sprintf("#b%0*b", w, v&mask(w))
}

func fpLit(s Sort, bitsv uint64) string {
	if s.W == 32 {
		b := uint32(bitsv)
		return fmt.Sprintf("(fp #b%b #b%08b #b%023b)", b>>31, (b>>23)&0xff, b&0x7fffff)
	}
	return fmt.Sprintf("(fp #b%b #b%011b #b%052b)", bitsv>>63, (bitsv>>52)&0x7ff, bitsv&((1<<52)-1))
}

// ref returns the SMT-LIB reference for t (a name for defined nodes, literal for constants).
func (t *Term) ref() string {
	switch t.Op {
	case OpConst:
		switch t.Sort.K {
		case SBool:
			if t.Val == 1 {
				return "true"
			}
			return "false"
		case SBV:
			return bvLit(t.Sort.W, t.Val)
		default:
			return fpLit(t.Sort, t.Val)
		}
	case OpVar:
		return "|" + t.Name + "|"
	}
	return fmt.Sprintf("t%d", t.id)
}

// body returns the SMT-LIB expression for a non-leaf term in terms of refs of its args.
func (t *Term) body() string {
	var sb strings.Builder
	switch t.Op {
	case OpExtract:
		fmt.Fprintf(&sb, "((_ extract %d %d) %s)", t.X0, t.X1, t.Args[0].ref())
	case OpZExt:
		fmt.Fprintf(&sb, "((_ zero_extend %d) %s)", t.X0, t.Args[0].ref())
	case OpSExt:
		fmt.Fprintf(&sb, "((_ sign_extend %d) %s)", t.X0, t.Args[0].ref())
	case OpFFromSBV:
		fmt.Fprintf(&sb, "((_ to_fp %s) RNE %s)", fpEB(t.Sort), t.Args[0].ref())
	case OpFFromUBV:
		fmt.Fprintf(&sb, "((_ to_fp_unsigned %s) RNE %s)", fpEB(t.Sort), t.Args[0].ref())
	case OpFFromFP:
		fmt.Fprintf(&sb, "((_ to_fp %s) RNE %s)", fpEB(t.Sort), t.Args[0].ref())
	case OpFFromBits:
		fmt.Fprintf(&sb, "((_ to_fp %s) %s)", fpEB(t.Sort), t.Args[0].ref())
	case OpFToSBV:
		fmt.Fprintf(&sb, "((_ fp.to_sbv %d) RTZ %s)", t.X0, t.Args[0].ref())
	case OpFToUBV:
		fmt.Fprintf(&sb, "((_ fp.to_ubv %d) RTZ %s)", t.X0, t.Args[0].ref())
	default:
		sb.WriteString("(")
		sb.WriteString(opNames[t.Op])
		for _, a := range t.Args {
			sb.WriteString(" ")
			sb.WriteString(a.ref())
		}
		sb.WriteString(")")
	}
	return sb.String()
}

func fpEB(s Sort) string {
	if s.W == 32 {
		return "8 24"
	}
	return "11 53"
}

// Eval evaluates t under an assignment of variables (by name). Missing variables are 0.
// FP-valued operations other than comparison of constants are not evaluated (ok=false).
func (tt *TermTable) Eval(t *Term, env map[string]uint64, memo map[*Term]uint64) (uint64, bool) {
	if t.Op == OpConst {
		return t.Val, true
	}
	if v, ok := memo[t]; ok {
		return v, true
	}
	var res uint64
	ok := true
	switch t.Op {
	case OpVar:
		res = env[t.Name]
		if t.Sort.K == SBV {
			res &= mask(t.Sort.W)
		}
	default:
		args := make([]*Term, len(t.Args))
		for i, a := range t.Args {
			v, k := tt.Eval(a, env, memo)
			if !k {
				return 0, false
			}
			args[i] = &Term{Op: OpConst, Sort: a.Sort, Val: v}
		}
		var r *Term
		switch t.Op {
		case OpNot:
			r = tt.Not(args[0])
		case OpAnd:
			r = tt.And(args[0], args[1])
		case OpOr:
			r = tt.Or(args[0], args[1])
		case OpIte:
			if args[0].Val == 1 {
				r = args[1]
			} else {
				r = args[2]
			}
		case OpEq:
			r = tt.Bool(args[0].Val == args[1].Val)
		case OpBNot:
			r = tt.BNot(args[0])
		case OpNeg:
			r = tt.Neg(args[0])
		case OpExtract:
			r = tt.Extract(args[0], t.X0, t.X1)
		case OpZExt:
			r = tt.ZExt(args[0], t.Sort.W)
		case OpSExt:
			r = tt.SExt(args[0], t.Sort.W)
		case OpConcat:
			r = tt.Concat(args[0], args[1])
		case OpFAdd, OpFSub, OpFMul, OpFDiv, OpFLt, OpFLe, OpFEq:
			r = tt.FBin(t.Op, args[0], args[1])
		case OpFNeg:
			r = tt.FNeg(args[0])
		case OpFIsNaN:
			r = tt.FIsNaN(args[0])
		case OpFIsInf:
			r = tt.FIsInf(args[0])
		case OpFFromSBV:
			r = tt.FFromInt(args[0], true, t.Sort)
		case OpFFromUBV:
			r = tt.FFromInt(args[0], false, t.Sort)
		case OpFFromFP:
			r = tt.FFromFP(args[0], t.Sort)
		case OpFFromBits:
			r = tt.FFromBits(args[0])
		case OpFToSBV:
			f := math.Trunc(fpConstVal(args[0]))
			r = tt.Const(t.Sort, uint64(int64(f)))
		case OpFToUBV:
			f := math.Trunc(fpConstVal(args[0]))
			r = tt.Const(t.Sort, uint64(f))
		default:
			r = tt.Bin(t.Op, args[0], args[1])
		}
		if !r.IsConst() {
			return 0, false
		}
		res = r.Val
	}
	memo[t] = res
	return res, ok
}

var _ = bits.Len
