package sym

import (
	"fmt"
	"go/types"

	"golang.org/x/tools/go/ssa"
)

func (m *Machine) callBuiltin(caller *frame, fn *ssa.Builtin, args []value) value {
	tt := m.tt
	switch fn.Name() {
	case "append":
		if len(args) == 1 {
			return args[0]
		}
		dst := args[0].([]value)
		var src []value
		switch s := args[1].(type) {
		case []value:
			src = s
		case string, symString:
			for _, b := range m.strBytes(s) {
				src = append(src, b)
			}
		}
		if len(src) == 0 {
			return dst
		}
		if len(dst)+len(src) <= cap(dst) {
			n := len(dst)
			dst = dst[:n+len(src)]
			for i, v := range src {
				m.checkTrunc(&dst[n+i])
				dst[n+i] = copyVal(v)
			}
			return dst
		}
		// grow: new backing array (amortised doubling as in the Go runtime for small slices)
		newCap := cap(dst) * 2
		if need := len(dst) + len(src); newCap < need {
			newCap = need
		}
		nd := make([]value, len(dst)+len(src), newCap)
		copy(nd, dst)
		for i, v := range src {
			nd[len(dst)+i] = copyVal(v)
		}
		// zero-fill spare capacity lazily: cells beyond len are nil until resliced; fill now
		if newCap > len(nd) {
			var z value
			if len(nd) > 0 {
				z = zeroLike(m, nd[0])
			}
			full := nd[:newCap]
			for i := len(nd); i < newCap; i++ {
				full[i] = copyVal(z)
			}
		}
		return nd

	case "copy":
		dst := args[0].([]value)
		var src []value
		switch s := args[1].(type) {
		case []value:
			src = s
		case string, symString:
			for _, b := range m.strBytes(s) {
				src = append(src, b)
			}
		}
		n := len(dst)
		if len(src) < n {
			n = len(src)
		}
		if n > 0 && len(m.truncEnd) > 0 {
			m.checkTrunc(&dst[n-1])
		}
		// handle overlap like memmove
		if n > 0 && &dst[0] != &src[0] {
			tmp := make([]value, n)
			for i := 0; i < n; i++ {
				tmp[i] = copyVal(src[i])
			}
			copy(dst, tmp)
		}
		return m.intConst(int64(n))

	case "len":
		switch x := args[0].(type) {
		case string:
			return m.intConst(int64(len(x)))
		case symString:
			return m.intConst(int64(len(x)))
		case []value:
			return m.intConst(int64(len(x)))
		case array:
			return m.intConst(int64(len(x)))
		case *value:
			return m.intConst(int64(len((*x).(array))))
		case *mapV:
			if x == nil {
				return m.intConst(0)
			}
			return m.intConst(int64(x.length()))
		case *chanV:
			if x == nil {
				return m.intConst(0)
			}
			return m.intConst(int64(len(x.buf)))
		}
	case "cap":
		switch x := args[0].(type) {
		case []value:
			return m.intConst(int64(cap(x)))
		case array:
			return m.intConst(int64(len(x)))
		case *value:
			return m.intConst(int64(len((*x).(array))))
		case *chanV:
			if x == nil {
				return m.intConst(0)
			}
			return m.intConst(int64(x.cap))
		}
	case "delete":
		m.mapDelete(args[0].(*mapV), args[1])
		return nil
	case "clear":
		switch x := args[0].(type) {
		case *mapV:
			if x != nil {
				x.entries = nil
				x.fast = map[interface{}]*mapEntry{}
			}
		case []value:
			for i := range x {
				x[i] = zeroLike(m, x[i])
			}
		}
		return nil
	case "print", "println":
		return nil
	case "panic":
		panic(targetPanic{args[0]})
	case "recover":
		if caller != nil && caller.caller != nil && caller.caller.panicking {
			pf := caller.caller
			pf.panicking = false
			if tp, ok := pf.panicv.(targetPanic); ok {
				if iv, ok := tp.v.(iface); ok {
					return iv
				}
				return iface{t: types.Typ[types.String], v: fmt.Sprint(tp.v)}
			}
		}
		return iface{}
	case "ssa:wrapnilchk":
		recv := args[0]
		if p, ok := recv.(*value); ok && p == nil {
			panic(m.runtimePanic("value method called using nil pointer"))
		}
		return recv
	case "min", "max":
		res := args[0].(*Term)
		for _, a := range args[1:] {
			at := a.(*Term)
			var lt *Term
			if res.Sort.K == SFP {
				lt = tt.FBin(OpFLt, at, res)
			} else if isSigned(fn.Type().(*types.Signature).Params().At(0).Type()) {
				lt = tt.Bin(OpSLt, at, res)
			} else {
				lt = tt.Bin(OpULt, at, res)
			}
			if fn.Name() == "min" {
				res = tt.Ite(lt, at, res)
			} else {
				res = tt.Ite(lt, res, at)
			}
		}
		return res
	case "real":
		return args[0].(structure)[0]
	case "imag":
		return args[0].(structure)[1]
	case "close":
		ch, _ := args[0].(*chanV)
		if ch == nil {
			panic(m.runtimePanic("close of nil channel"))
		}
		if ch.closed {
			panic(m.runtimePanic("close of closed channel"))
		}
		ch.closed = true
		m.yield("close")
		return nil
	case "String": // unsafe.String(ptr, len)
		n := m.concreteInt(args[1], "unsafe.String len")
		if n == 0 {
			return ""
		}
		cells := m.cellsFrom(args[0], int(n))
		bs := make([]*Term, n)
		for i := range bs {
			bs[i] = cells[i].(*Term)
		}
		return m.mkString(bs)
	case "SliceData":
		s := args[0].([]value)
		if cap(s) == 0 {
			return (*value)(nil)
		}
		return &sliceData{s: s[:cap(s)]}
	case "StringData":
		bs := m.strBytes(args[0])
		s := make([]value, len(bs))
		for i, b := range bs {
			s[i] = b
		}
		return &sliceData{s: s}
	case "Slice": // unsafe.Slice(ptr, len)
		n := m.concreteInt(args[1], "unsafe.Slice len")
		return m.cellsFrom(args[0], int(n))
	}
	panic(m.unsupported("builtin %s on %T", fn.Name(), firstOrNil(args)))
}

// sliceData is the pointer returned by unsafe.SliceData / StringData.
type sliceData struct{ s []value }

func (m *Machine) cellsFrom(p value, n int) []value {
	switch p := p.(type) {
	case *sliceData:
		if n > len(p.s) {
			panic(m.unsupported("unsafe slice beyond backing array"))
		}
		return p.s[:n]
	case *value:
		if n == 0 {
			return []value{}
		}
	}
	panic(m.unsupported("unsafe.String/Slice from %T", p))
}

func (m *Machine) checkTrunc(p *value) {
	if len(m.truncEnd) > 0 && m.truncEnd[p] {
		panic(m.boundFail("write reaches the end of a slice materialised only up to the make cap"))
	}
}

func zeroLike(m *Machine, v value) value {
	switch v := v.(type) {
	case *Term:
		switch v.Sort.K {
		case SBool:
			return m.tt.False
		case SBV:
			return m.tt.Const(v.Sort, 0)
		default:
			return m.tt.FConst(v.Sort, 0)
		}
	case string, symString:
		return ""
	case *value:
		return (*value)(nil)
	case []value:
		return []value(nil)
	case iface:
		return iface{}
	case *mapV:
		return (*mapV)(nil)
	case array:
		a := make(array, len(v))
		for i := range v {
			a[i] = zeroLike(m, v[i])
		}
		return a
	case structure:
		s := make(structure, len(v))
		for i := range v {
			s[i] = zeroLike(m, v[i])
		}
		return s
	case nil:
		return nil
	}
	return nilFunc{}
}

func firstOrNil(a []value) value {
	if len(a) == 0 {
		return nil
	}
	return a[0]
}
