package sym

func registerReflectNatives(P *Program, reg func(string, func(fr *frame, args []value) value)) {}
