package sym

// reflect.go: reflection over interpreter values (the subset hc's tlv8 package and a few
// initialisers use). reflect.Value is carried as *rvalue, reflect.Type as an interface
// value whose dynamic type is *reflect.rtype and whose payload is *rtypeV.

import (
	"fmt"
	"go/types"
)

type rvalue struct {
	t    types.Type
	v    value  // current value (when addr == nil)
	addr *value // cell holding the value, when addressable/settable
}

type rtypeV struct{ t types.Type }

func (r *rvalue) get() value {
	if r.addr != nil {
		return *r.addr
	}
	return r.v
}

// reflect.Kind numbering
const (
	kInvalid = iota
	kBool
	kInt
	kInt8
	kInt16
	kInt32
	kInt64
	kUint
	kUint8
	kUint16
	kUint32
	kUint64
	kUintptr
	kFloat32
	kFloat64
	kComplex64
	kComplex128
	kArray
	kChan
	kFunc
	kInterface
	kMap
	kPointer
	kSlice
	kString
	kStruct
	kUnsafePointer
)

func kindOf(t types.Type) int {
	if t == nil {
		return kInvalid
	}
	switch u := t.Underlying().(type) {
	case *types.Basic:
		switch u.Kind() {
		case types.Bool:
			return kBool
		case types.Int:
			return kInt
		case types.Int8:
			return kInt8
		case types.Int16:
			return kInt16
		case types.Int32:
			return kInt32
		case types.Int64:
			return kInt64
		case types.Uint:
			return kUint
		case types.Uint8:
			return kUint8
		case types.Uint16:
			return kUint16
		case types.Uint32:
			return kUint32
		case types.Uint64:
			return kUint64
		case types.Uintptr:
			return kUintptr
		case types.Float32:
			return kFloat32
		case types.Float64:
			return kFloat64
		case types.String:
			return kString
		case types.UnsafePointer:
			return kUnsafePointer
		case types.Complex64:
			return kComplex64
		case types.Complex128:
			return kComplex128
		}
	case *types.Array:
		return kArray
	case *types.Chan:
		return kChan
	case *types.Signature:
		return kFunc
	case *types.Interface:
		return kInterface
	case *types.Map:
		return kMap
	case *types.Pointer:
		return kPointer
	case *types.Slice:
		return kSlice
	case *types.Struct:
		return kStruct
	}
	return kInvalid
}

func (m *Machine) rtypeIface(t types.Type) value {
	if t == nil {
		return iface{}
	}
	rt := m.P.byPath["reflect"].Type("rtype")
	return iface{t: types.NewPointer(rt.Type()), v: &rtypeV{t}}
}

func (m *Machine) kindValue(k int) value {
	return m.tt.Const(BV(64), uint64(k)) // reflect.Kind is uint
}

func registerReflectNatives(P *Program, reg func(string, func(fr *frame, args []value) value)) {
	rv := func(fr *frame, v value) *rvalue {
		r, ok := v.(*rvalue)
		if !ok {
			// the zero reflect.Value
			return &rvalue{}
		}
		return r
	}
	rt := func(fr *frame, v value) types.Type {
		switch x := v.(type) {
		case *rtypeV:
			return x.t
		case *opaque:
			if t, ok := x.data.(types.Type); ok {
				return t
			}
		}
		panic(fr.m.unsupported("reflect.Type receiver %T", v))
	}
	reg("reflect.TypeOf", func(fr *frame, a []value) value {
		return fr.m.rtypeIface(a[0].(iface).t)
	})
	reg("reflect.ValueOf", func(fr *frame, a []value) value {
		in := a[0].(iface)
		if in.t == nil {
			return &rvalue{}
		}
		return &rvalue{t: in.t, v: in.v}
	})
	reg("regexp.MustCompile", func(fr *frame, a []value) value { return (*value)(nil) })
	reg("regexp.Compile", func(fr *frame, a []value) value { return tuple{(*value)(nil), iface{}} })

	// ---- Value ----
	reg("(reflect.Value).Kind", func(fr *frame, a []value) value { return fr.m.kindValue(kindOf(rv(fr, a[0]).t)) })
	reg("(reflect.Value).IsValid", func(fr *frame, a []value) value { return fr.m.tt.Bool(rv(fr, a[0]).t != nil) })
	reg("(reflect.Value).Type", func(fr *frame, a []value) value { return fr.m.rtypeIface(rv(fr, a[0]).t) })
	reg("(reflect.Value).CanSet", func(fr *frame, a []value) value { return fr.m.tt.Bool(rv(fr, a[0]).addr != nil) })
	reg("(reflect.Value).CanAddr", func(fr *frame, a []value) value { return fr.m.tt.Bool(rv(fr, a[0]).addr != nil) })
	reg("(reflect.Value).CanInterface", func(fr *frame, a []value) value { return fr.m.tt.True })
	reg("(reflect.Value).Interface", func(fr *frame, a []value) value {
		r := rv(fr, a[0])
		if r.t == nil {
			panic(fr.m.runtimePanic("reflect: call of reflect.Value.Interface on zero Value"))
		}
		if _, isI := r.t.Underlying().(*types.Interface); isI {
			return r.get()
		}
		return iface{t: r.t, v: copyVal(r.get())}
	})
	reg("(reflect.Value).IsNil", func(fr *frame, a []value) value {
		m := fr.m
		r := rv(fr, a[0])
		switch v := r.get().(type) {
		case *value:
			return m.tt.Bool(v == nil)
		case []value:
			return m.tt.Bool(v == nil)
		case *mapV:
			return m.tt.Bool(v == nil)
		case iface:
			return m.tt.Bool(v.t == nil)
		case nilFunc:
			return m.tt.True
		case *chanV:
			return m.tt.Bool(v == nil)
		}
		panic(m.runtimePanic("reflect: call of reflect.Value.IsNil on " + typeString(r.t)))
	})
	reg("(reflect.Value).Elem", func(fr *frame, a []value) value {
		m := fr.m
		r := rv(fr, a[0])
		switch u := r.t.Underlying().(type) {
		case *types.Pointer:
			p := r.get().(*value)
			if p == nil {
				return &rvalue{}
			}
			return &rvalue{t: u.Elem(), addr: p}
		case *types.Interface:
			iv := r.get().(iface)
			if iv.t == nil {
				return &rvalue{}
			}
			return &rvalue{t: iv.t, v: iv.v}
		}
		panic(m.runtimePanic("reflect: call of reflect.Value.Elem on " + typeString(r.t)))
	})
	reg("(reflect.Value).NumField", func(fr *frame, a []value) value {
		r := rv(fr, a[0])
		st, ok := r.t.Underlying().(*types.Struct)
		if !ok {
			panic(fr.m.runtimePanic("reflect: call of reflect.Value.NumField on " + typeString(r.t) + " Value"))
		}
		return fr.m.intConst(int64(st.NumFields()))
	})
	reg("(reflect.Value).Field", func(fr *frame, a []value) value {
		m := fr.m
		r := rv(fr, a[0])
		st, ok := r.t.Underlying().(*types.Struct)
		if !ok {
			panic(m.runtimePanic("reflect: call of reflect.Value.Field on " + typeString(r.t) + " Value"))
		}
		i := int(m.concreteInt(a[1], "Field index"))
		if i < 0 || i >= st.NumFields() {
			panic(m.runtimePanic("reflect: Field index out of range"))
		}
		if r.addr != nil {
			return &rvalue{t: st.Field(i).Type(), addr: &(*r.addr).(structure)[i]}
		}
		return &rvalue{t: st.Field(i).Type(), v: r.v.(structure)[i]}
	})
	reg("(reflect.Value).Len", func(fr *frame, a []value) value {
		m := fr.m
		r := rv(fr, a[0])
		switch v := r.get().(type) {
		case []value:
			return m.intConst(int64(len(v)))
		case array:
			return m.intConst(int64(len(v)))
		case string:
			return m.intConst(int64(len(v)))
		case symString:
			return m.intConst(int64(len(v)))
		case *mapV:
			if v == nil {
				return m.intConst(0)
			}
			return m.intConst(int64(v.length()))
		}
		panic(m.runtimePanic("reflect: call of reflect.Value.Len on " + typeString(r.t) + " Value"))
	})
	reg("(reflect.Value).Index", func(fr *frame, a []value) value {
		m := fr.m
		r := rv(fr, a[0])
		i := int(m.concreteInt(a[1], "Index"))
		switch u := r.t.Underlying().(type) {
		case *types.Slice:
			s := r.get().([]value)
			if i < 0 || i >= len(s) {
				panic(m.runtimePanic("reflect: slice index out of range"))
			}
			return &rvalue{t: u.Elem(), addr: &s[i]}
		case *types.Array:
			if r.addr != nil {
				return &rvalue{t: u.Elem(), addr: &(*r.addr).(array)[i]}
			}
			return &rvalue{t: u.Elem(), v: r.v.(array)[i]}
		}
		panic(m.runtimePanic("reflect: call of reflect.Value.Index on " + typeString(r.t) + " Value"))
	})
	scalar := func(fr *frame, r *rvalue, what string) *Term {
		t, ok := r.get().(*Term)
		if !ok {
			panic(fr.m.runtimePanic("reflect: call of reflect.Value." + what + " on " + typeString(r.t) + " Value"))
		}
		return t
	}
	reg("(reflect.Value).Uint", func(fr *frame, a []value) value {
		return fr.m.tt.ZExt(scalar(fr, rv(fr, a[0]), "Uint"), 64)
	})
	reg("(reflect.Value).Int", func(fr *frame, a []value) value {
		return fr.m.tt.SExt(scalar(fr, rv(fr, a[0]), "Int"), 64)
	})
	reg("(reflect.Value).Float", func(fr *frame, a []value) value {
		return fr.m.tt.FFromFP(scalar(fr, rv(fr, a[0]), "Float"), FP(64))
	})
	reg("(reflect.Value).Bool", func(fr *frame, a []value) value { return scalar(fr, rv(fr, a[0]), "Bool") })
	reg("(reflect.Value).String", func(fr *frame, a []value) value {
		r := rv(fr, a[0])
		switch v := r.get().(type) {
		case string, symString:
			return v
		}
		return "<" + typeString(r.t) + " Value>"
	})
	reg("(reflect.Value).Bytes", func(fr *frame, a []value) value {
		r := rv(fr, a[0])
		if s, ok := r.get().([]value); ok {
			return s
		}
		panic(fr.m.runtimePanic("reflect: call of reflect.Value.Bytes on " + typeString(r.t) + " Value"))
	})
	settable := func(fr *frame, r *rvalue, what string) {
		if r.addr == nil {
			panic(fr.m.runtimePanic("reflect: reflect.Value." + what + " using unaddressable value"))
		}
	}
	reg("(reflect.Value).SetUint", func(fr *frame, a []value) value {
		r := rv(fr, a[0])
		settable(fr, r, "SetUint")
		b, ok := r.t.Underlying().(*types.Basic)
		if !ok || b.Info()&types.IsUnsigned == 0 {
			panic(fr.m.runtimePanic("reflect: call of reflect.Value.SetUint on " + typeString(r.t) + " Value"))
		}
		*r.addr = fr.m.tt.Extract(a[1].(*Term), intWidth(b)-1, 0)
		return nil
	})
	reg("(reflect.Value).SetInt", func(fr *frame, a []value) value {
		r := rv(fr, a[0])
		settable(fr, r, "SetInt")
		b, ok := r.t.Underlying().(*types.Basic)
		if !ok || b.Info()&types.IsInteger == 0 || b.Info()&types.IsUnsigned != 0 {
			panic(fr.m.runtimePanic("reflect: call of reflect.Value.SetInt on " + typeString(r.t) + " Value"))
		}
		*r.addr = fr.m.tt.Extract(a[1].(*Term), intWidth(b)-1, 0)
		return nil
	})
	reg("(reflect.Value).SetFloat", func(fr *frame, a []value) value {
		r := rv(fr, a[0])
		settable(fr, r, "SetFloat")
		b, ok := r.t.Underlying().(*types.Basic)
		if !ok || b.Info()&types.IsFloat == 0 {
			panic(fr.m.runtimePanic("reflect: call of reflect.Value.SetFloat on " + typeString(r.t) + " Value"))
		}
		*r.addr = fr.m.tt.FFromFP(a[1].(*Term), FP(floatWidth(b)))
		return nil
	})
	reg("(reflect.Value).SetBool", func(fr *frame, a []value) value {
		r := rv(fr, a[0])
		settable(fr, r, "SetBool")
		*r.addr = a[1]
		return nil
	})
	reg("(reflect.Value).SetString", func(fr *frame, a []value) value {
		r := rv(fr, a[0])
		settable(fr, r, "SetString")
		*r.addr = a[1]
		return nil
	})
	reg("(reflect.Value).SetBytes", func(fr *frame, a []value) value {
		r := rv(fr, a[0])
		settable(fr, r, "SetBytes")
		*r.addr = a[1]
		return nil
	})
	reg("(reflect.Value).Set", func(fr *frame, a []value) value {
		r := rv(fr, a[0])
		settable(fr, r, "Set")
		x := rv(fr, a[1])
		if x.t == nil {
			panic(fr.m.runtimePanic("reflect: call of reflect.Value.Set on zero Value"))
		}
		if !types.AssignableTo(x.t, r.t) {
			panic(fr.m.runtimePanic("reflect.Set: value of type " + typeString(x.t) + " is not assignable to type " + typeString(r.t)))
		}
		assignInPlace(r.addr, copyVal(x.get()))
		return nil
	})
	reg("reflect.New", func(fr *frame, a []value) value {
		m := fr.m
		t := rt(fr, a[0].(iface).v)
		p := new(value)
		*p = m.zero(t)
		return &rvalue{t: types.NewPointer(t), v: p}
	})
	reg("reflect.MakeSlice", func(fr *frame, a []value) value {
		m := fr.m
		t := rt(fr, a[0].(iface).v)
		n := int(m.concreteInt(a[1], "MakeSlice len"))
		c := int(m.concreteInt(a[2], "MakeSlice cap"))
		st := t.Underlying().(*types.Slice)
		s := make([]value, n, c)
		for i := range s {
			s[i] = m.zero(st.Elem())
		}
		return &rvalue{t: t, v: s}
	})
	reg("reflect.Append", func(fr *frame, a []value) value {
		s := rv(fr, a[0])
		cur := s.get().([]value)
		out := append([]value(nil), cur...)
		for _, x := range a[1].([]value) {
			out = append(out, copyVal(rv(fr, x).get()))
		}
		return &rvalue{t: s.t, v: out}
	})
	reg("reflect.DeepEqual", func(fr *frame, a []value) value {
		return fr.m.deepEqual(a[0], a[1])
	})
	reg("reflect.Zero", func(fr *frame, a []value) value {
		t := rt(fr, a[0].(iface).v)
		return &rvalue{t: t, v: fr.m.zero(t)}
	})

	// ---- Type (methods of *reflect.rtype) ----
	T := func(n string) string { return "(*reflect.rtype)." + n }
	reg(T("Kind"), func(fr *frame, a []value) value { return fr.m.kindValue(kindOf(rt(fr, a[0]))) })
	reg(T("String"), func(fr *frame, a []value) value { return types.TypeString(rt(fr, a[0]), shortQualifier) })
	reg(T("Name"), func(fr *frame, a []value) value {
		if n, ok := rt(fr, a[0]).(*types.Named); ok {
			return n.Obj().Name()
		}
		if b, ok := rt(fr, a[0]).(*types.Basic); ok {
			return b.Name()
		}
		return ""
	})
	reg(T("Elem"), func(fr *frame, a []value) value {
		switch u := rt(fr, a[0]).Underlying().(type) {
		case *types.Pointer:
			return fr.m.rtypeIface(u.Elem())
		case *types.Slice:
			return fr.m.rtypeIface(u.Elem())
		case *types.Array:
			return fr.m.rtypeIface(u.Elem())
		case *types.Map:
			return fr.m.rtypeIface(u.Elem())
		case *types.Chan:
			return fr.m.rtypeIface(u.Elem())
		}
		panic(fr.m.runtimePanic("reflect: Elem of invalid type " + typeString(rt(fr, a[0]))))
	})
	reg(T("NumField"), func(fr *frame, a []value) value {
		st, ok := rt(fr, a[0]).Underlying().(*types.Struct)
		if !ok {
			panic(fr.m.runtimePanic("reflect: NumField of non-struct type " + typeString(rt(fr, a[0]))))
		}
		return fr.m.intConst(int64(st.NumFields()))
	})
	reg(T("Field"), func(fr *frame, a []value) value {
		m := fr.m
		st, ok := rt(fr, a[0]).Underlying().(*types.Struct)
		if !ok {
			panic(m.runtimePanic("reflect: Field of non-struct type " + typeString(rt(fr, a[0]))))
		}
		i := int(m.concreteInt(a[1], "Type.Field index"))
		if i < 0 || i >= st.NumFields() {
			panic(m.runtimePanic("reflect: Field index out of bounds"))
		}
		sfT := m.P.byPath["reflect"].Type("StructField").Type()
		sf := m.zero(sfT).(structure)
		sst := sfT.Underlying().(*types.Struct)
		for k := 0; k < sst.NumFields(); k++ {
			switch sst.Field(k).Name() {
			case "Name":
				sf[k] = st.Field(i).Name()
			case "Tag":
				sf[k] = st.Tag(i)
			case "Type":
				sf[k] = m.rtypeIface(st.Field(i).Type())
			case "Anonymous":
				sf[k] = m.tt.Bool(st.Field(i).Embedded())
			case "PkgPath":
				if !st.Field(i).Exported() && st.Field(i).Pkg() != nil {
					sf[k] = st.Field(i).Pkg().Path()
				}
			}
		}
		return sf
	})
	_ = fmt.Sprint
}

func shortQualifier(p *types.Package) string { return p.Name() }

// deepEqual implements reflect.DeepEqual for the value shapes hc compares.
func (m *Machine) deepEqual(x, y value) *Term {
	xi, yi := x.(iface), y.(iface)
	if xi.t == nil || yi.t == nil {
		return m.tt.Bool(xi.t == nil && yi.t == nil)
	}
	if !types.Identical(xi.t, yi.t) {
		return m.tt.False
	}
	return m.deepEqualV(xi.t, xi.v, yi.v)
}

func (m *Machine) deepEqualV(t types.Type, x, y value) *Term {
	switch u := t.Underlying().(type) {
	case *types.Slice:
		xs, ys := x.([]value), y.([]value)
		if (xs == nil) != (ys == nil) || len(xs) != len(ys) {
			return m.tt.False
		}
		var cs []*Term
		for i := range xs {
			cs = append(cs, m.deepEqualV(u.Elem(), xs[i], ys[i]))
		}
		return m.tt.AndN(cs)
	case *types.Array:
		xs, ys := x.(array), y.(array)
		var cs []*Term
		for i := range xs {
			cs = append(cs, m.deepEqualV(u.Elem(), xs[i], ys[i]))
		}
		return m.tt.AndN(cs)
	case *types.Struct:
		xs, ys := x.(structure), y.(structure)
		var cs []*Term
		for i := range xs {
			cs = append(cs, m.deepEqualV(u.Field(i).Type(), xs[i], ys[i]))
		}
		return m.tt.AndN(cs)
	case *types.Pointer:
		xp, yp := x.(*value), y.(*value)
		if xp == yp {
			return m.tt.True
		}
		if xp == nil || yp == nil {
			return m.tt.False
		}
		return m.deepEqualV(u.Elem(), *xp, *yp)
	case *types.Interface:
		return m.deepEqual(x, y)
	case *types.Map:
		panic(m.unsupported("reflect.DeepEqual on maps"))
	}
	return m.equals(t, x, y)
}
