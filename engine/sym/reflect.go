package sym

import "go/types"

// reflect.go: minimal reflect natives (package initialisers that only stash a reflect.Type).

func registerReflectNatives(P *Program, reg func(string, func(fr *frame, args []value) value)) {
	reg("reflect.TypeOf", func(fr *frame, a []value) value {
		in := a[0].(iface)
		return iface{t: types.Typ[types.UnsafePointer], v: &opaque{kind: "reflect.Type", data: in.t}}
	})
	reg("regexp.MustCompile", func(fr *frame, a []value) value { return (*value)(nil) })
	reg("regexp.Compile", func(fr *frame, a []value) value { return tuple{(*value)(nil), iface{}} })
}
