package sym

// jsonmodel.go: tree model of encoding/json.
//
// Marshal does not produce JSON text: it produces an opaque handle ("\x00J<n>\x00")
// bound to the JSON *tree* the engine derives from the Go value with the rules of
// encoding/json (struct tags, omitempty, "-", MarshalJSON methods - which are interpreted -,
// []byte as a byte-string node, maps as objects). Unmarshal / Decoder.Decode of a handle
// rebuild Go values from the tree with encoding/json's rules (field matching by tag,
// numbers into interface{} become float64, type mismatches are errors). Concrete JSON
// text (no handle) is parsed with the host's encoding/json into a tree first. Byte-level
// JSON (escaping, number syntax) is outside the model.

import (
	"encoding/json"
	"fmt"
	"go/types"
	"reflect"
	"sort"
	"strconv"
	"strings"
	"unicode/utf8"
)

type jkind int

const (
	jNull jkind = iota
	jBool
	jNum
	jStr
	jBytes // []byte (base64 string in real JSON)
	jArr
	jObj
)

type jfield struct {
	key string
	val *jnode
}

type jnode struct {
	kind   jkind
	b      *Term   // jBool
	f      *Term   // jNum: float64 view (always set)
	i      *Term   // jNum: integer view when the source was an integer (BV64), else nil
	signed bool    // jNum integer signedness
	s      value   // jStr: string | symString
	bytes  []*Term // jBytes
	arr    []*jnode
	obj    []jfield
}

type jsonState struct {
	trees []*jnode
	canon map[string]int
}

// jsonCanon is a canonical rendering of a tree (symbolic leaves by term identity), used to
// give structurally equal trees the same handle: equal JSON text <=> equal handle bytes.
func jsonCanon(n *jnode, sb *strings.Builder) {
	switch n.kind {
	case jNull:
		sb.WriteString("null")
	case jBool:
		sb.WriteString("b:" + n.b.ref())
	case jNum:
		if n.i != nil {
			fmt.Fprintf(sb, "i%v:%s", n.signed, n.i.ref())
		} else {
			sb.WriteString("f:" + n.f.ref())
		}
	case jStr:
		switch s := n.s.(type) {
		case string:
			sb.WriteString(strconv.Quote(s))
		case symString:
			sb.WriteString("s[")
			for _, t := range s {
				sb.WriteString(t.ref() + ",")
			}
			sb.WriteString("]")
		}
	case jBytes:
		sb.WriteString("B[")
		for _, t := range n.bytes {
			sb.WriteString(t.ref() + ",")
		}
		sb.WriteString("]")
	case jArr:
		sb.WriteString("[")
		for _, e := range n.arr {
			jsonCanon(e, sb)
			sb.WriteString(",")
		}
		sb.WriteString("]")
	case jObj:
		sb.WriteString("{")
		for _, f := range n.obj {
			sb.WriteString(strconv.Quote(f.key) + ":")
			jsonCanon(f.val, sb)
			sb.WriteString(",")
		}
		sb.WriteString("}")
	}
}

func (m *Machine) jsonSt() *jsonState {
	st, _ := m.models["json"].(*jsonState)
	if st == nil {
		st = &jsonState{}
		m.models["json"] = st
	}
	return st
}

func (m *Machine) jsonHandle(n *jnode) []value {
	st := m.jsonSt()
	if st.canon == nil {
		st.canon = map[string]int{}
	}
	var sb strings.Builder
	jsonCanon(n, &sb)
	id, ok := st.canon[sb.String()]
	if !ok {
		st.trees = append(st.trees, n)
		id = len(st.trees) - 1
		st.canon[sb.String()] = id
	}
	h := fmt.Sprintf("\x00J%d\x00", id)
	out := make([]value, len(h))
	for i := 0; i < len(h); i++ {
		out[i] = m.tt.Const(BV(8), uint64(h[i]))
	}
	return out
}

// jsonParseStream splits a byte string into the JSON values it contains (handles or
// concrete JSON text).
func (m *Machine) jsonParseStream(data []*Term) ([]*jnode, error) {
	var out []*jnode
	st := m.jsonSt()
	i := 0
	for i < len(data) {
		b := data[i]
		if !b.IsConst() {
			return nil, fmt.Errorf("symbolic bytes are not JSON text the model can parse")
		}
		c := byte(b.Val)
		switch {
		case c == ' ' || c == '\n' || c == '\t' || c == '\r':
			i++
		case c == 0:
			// handle
			j := i + 1
			var sb strings.Builder
			for j < len(data) && data[j].IsConst() && data[j].Val != 0 {
				sb.WriteByte(byte(data[j].Val))
				j++
			}
			s := sb.String()
			if j >= len(data) || !strings.HasPrefix(s, "J") {
				return nil, fmt.Errorf("invalid character '\\x00' looking for beginning of value")
			}
			id, err := strconv.Atoi(s[1:])
			if err != nil || id >= len(st.trees) {
				return nil, fmt.Errorf("bad JSON handle")
			}
			out = append(out, st.trees[id])
			i = j + 1
		default:
			// concrete JSON text up to the next handle: parse with the host decoder
			j := i
			var sb strings.Builder
			for j < len(data) && data[j].IsConst() && data[j].Val != 0 {
				sb.WriteByte(byte(data[j].Val))
				j++
			}
			if j < len(data) && !data[j].IsConst() {
				return nil, fmt.Errorf("symbolic bytes are not JSON text the model can parse")
			}
			dec := json.NewDecoder(strings.NewReader(sb.String()))
			dec.UseNumber()
			for {
				var v interface{}
				if err := dec.Decode(&v); err != nil {
					if err.Error() == "EOF" {
						break
					}
					return out, err
				}
				out = append(out, m.jsonFromHost(v))
			}
			i = j
		}
	}
	return out, nil
}

func (m *Machine) jsonFromHost(v interface{}) *jnode {
	switch v := v.(type) {
	case nil:
		return &jnode{kind: jNull}
	case bool:
		return &jnode{kind: jBool, b: m.tt.Bool(v)}
	case json.Number:
		n := &jnode{kind: jNum}
		f, _ := v.Float64()
		n.f = m.tt.FConst(FP(64), f)
		if i, err := v.Int64(); err == nil {
			n.i = m.tt.Const(BV(64), uint64(i))
			n.signed = true
		} else if u, err := strconv.ParseUint(v.String(), 10, 64); err == nil {
			n.i = m.tt.Const(BV(64), u)
		}
		return n
	case string:
		return &jnode{kind: jStr, s: v}
	case []interface{}:
		n := &jnode{kind: jArr}
		for _, e := range v {
			n.arr = append(n.arr, m.jsonFromHost(e))
		}
		return n
	case map[string]interface{}:
		n := &jnode{kind: jObj}
		keys := make([]string, 0, len(v))
		for k := range v {
			keys = append(keys, k)
		}
		sort.Strings(keys)
		for _, k := range keys {
			n.obj = append(n.obj, jfield{k, m.jsonFromHost(v[k])})
		}
		return n
	}
	panic(m.unsupported("jsonFromHost %T", v))
}

// ---- Marshal: Go value -> tree ----

type jsonTag struct {
	name      string
	omitempty bool
	skip      bool
}

func parseJSONTag(f *types.Var, tag string) jsonTag {
	jt := jsonTag{name: f.Name()}
	if !f.Exported() {
		jt.skip = true
		return jt
	}
	st := reflect.StructTag(tag)
	v, ok := st.Lookup("json")
	if !ok {
		return jt
	}
	if v == "-" {
		jt.skip = true
		return jt
	}
	parts := strings.Split(v, ",")
	if parts[0] != "" {
		jt.name = parts[0]
	}
	for _, p := range parts[1:] {
		if p == "omitempty" {
			jt.omitempty = true
		}
	}
	return jt
}

func (m *Machine) jsonMarshalerOf(t types.Type) bool {
	return m.methodSig(t, "MarshalJSON", 0, 2) != nil
}

func (m *Machine) methodSig(t types.Type, name string, nparams, nresults int) *types.Selection {
	ms := m.P.Prog.MethodSets.MethodSet(t)
	for i := 0; i < ms.Len(); i++ {
		sel := ms.At(i)
		if sel.Obj().Name() == name {
			sig := sel.Type().(*types.Signature)
			if sig.Params().Len() == nparams && sig.Results().Len() == nresults {
				return sel
			}
		}
	}
	return nil
}

func (m *Machine) jsonEncode(fr *frame, t types.Type, v value, depth int) (*jnode, value) {
	if depth > 40 {
		panic(m.boundFail("json nesting depth"))
	}
	// MarshalJSON on the value's type (or, for addressable elements, on the pointer type)
	if _, isPtr := t.Underlying().(*types.Pointer); isPtr || types.IsInterface(t) == false {
		if sel := m.methodSig(t, "MarshalJSON", 0, 2); sel != nil {
			if p, ok := v.(*value); ok && p == nil {
				return &jnode{kind: jNull}, nil
			}
			fn := m.P.Prog.MethodValue(sel)
			res := m.callSSA(fr, fn, []value{v}, nil).(tuple)
			if e := res[1].(iface); e.t != nil {
				return nil, res[1]
			}
			nodes, err := m.jsonParseStream(m.bytesOf(res[0]))
			if err != nil || len(nodes) != 1 {
				return nil, m.newError("json: error calling MarshalJSON: invalid output")
			}
			return nodes[0], nil
		}
	}
	switch ut := t.Underlying().(type) {
	case *types.Basic:
		switch {
		case ut.Info()&types.IsBoolean != 0:
			return &jnode{kind: jBool, b: v.(*Term)}, nil
		case ut.Info()&types.IsInteger != 0:
			x := v.(*Term)
			signed := ut.Info()&types.IsUnsigned == 0
			var i64 *Term
			if signed {
				i64 = m.tt.SExt(x, 64)
			} else {
				i64 = m.tt.ZExt(x, 64)
			}
			return &jnode{kind: jNum, i: i64, signed: signed, f: m.tt.FFromInt(i64, signed, FP(64))}, nil
		case ut.Info()&types.IsFloat != 0:
			f := m.tt.FFromFP(v.(*Term), FP(64))
			bad := m.tt.Or(m.tt.FIsNaN(f), m.tt.FIsInf(f))
			if m.branch(bad, "json float unsupported value") {
				return nil, m.newError("json: unsupported value: NaN or Inf")
			}
			return &jnode{kind: jNum, f: f}, nil
		case ut.Info()&types.IsString != 0:
			if cs, ok := v.(string); ok {
				// encoding/json replaces every invalid UTF-8 byte by U+FFFD
				if !utf8.ValidString(cs) {
					var sb strings.Builder
					for i := 0; i < len(cs); {
						r, size := utf8.DecodeRuneInString(cs[i:])
						if r == utf8.RuneError && size == 1 {
							sb.WriteString("\ufffd")
						} else {
							sb.WriteString(cs[i : i+size])
						}
						i += size
					}
					v = sb.String()
				}
			}
			return &jnode{kind: jStr, s: v}, nil
		}
	case *types.Pointer:
		p := v.(*value)
		if p == nil {
			return &jnode{kind: jNull}, nil
		}
		return m.jsonEncode(fr, ut.Elem(), m.load(p), depth+1)
	case *types.Interface:
		iv := v.(iface)
		if iv.t == nil {
			return &jnode{kind: jNull}, nil
		}
		return m.jsonEncode(fr, iv.t, iv.v, depth+1)
	case *types.Struct:
		sv := v.(structure)
		n := &jnode{kind: jObj}
		for i := 0; i < ut.NumFields(); i++ {
			f := ut.Field(i)
			tag := parseJSONTag(f, ut.Tag(i))
			if tag.skip {
				continue
			}
			if f.Embedded() {
				if _, has := reflect.StructTag(ut.Tag(i)).Lookup("json"); !has {
					// embedded struct (or pointer to struct): fields are promoted
					et := f.Type()
					ev := sv[i]
					if pt, ok := et.Underlying().(*types.Pointer); ok {
						p := ev.(*value)
						if p == nil {
							continue
						}
						et, ev = pt.Elem(), m.load(p)
					}
					if _, isStruct := et.Underlying().(*types.Struct); isStruct {
						if m.methodSig(f.Type(), "MarshalJSON", 0, 2) == nil {
							sub, err := m.jsonEncode(fr, et, ev, depth+1)
							if err != nil {
								return nil, err
							}
							n.obj = append(n.obj, sub.obj...)
							continue
						}
					}
				}
			}
			if tag.omitempty && m.jsonIsEmpty(f.Type(), sv[i]) {
				continue
			}
			sub, err := m.jsonEncode(fr, f.Type(), sv[i], depth+1)
			if err != nil {
				return nil, err
			}
			n.obj = append(n.obj, jfield{tag.name, sub})
		}
		return n, nil
	case *types.Slice:
		s := v.([]value)
		if eb, ok := ut.Elem().Underlying().(*types.Basic); ok && eb.Kind() == types.Uint8 {
			if s == nil {
				return &jnode{kind: jNull}, nil
			}
			return &jnode{kind: jBytes, bytes: m.bytesOf(s)}, nil
		}
		if s == nil {
			return &jnode{kind: jNull}, nil
		}
		n := &jnode{kind: jArr, arr: []*jnode{}}
		for _, e := range s {
			sub, err := m.jsonEncode(fr, ut.Elem(), e, depth+1)
			if err != nil {
				return nil, err
			}
			n.arr = append(n.arr, sub)
		}
		return n, nil
	case *types.Array:
		a := v.(array)
		n := &jnode{kind: jArr, arr: []*jnode{}}
		for _, e := range a {
			sub, err := m.jsonEncode(fr, ut.Elem(), e, depth+1)
			if err != nil {
				return nil, err
			}
			n.arr = append(n.arr, sub)
		}
		return n, nil
	case *types.Map:
		mp := v.(*mapV)
		if mp == nil {
			return &jnode{kind: jNull}, nil
		}
		n := &jnode{kind: jObj, obj: []jfield{}}
		ents := mp.live()
		type kv struct {
			k string
			e *mapEntry
		}
		var kvs []kv
		for _, e := range ents {
			ks, ok := e.k.(string)
			if !ok {
				panic(m.unsupported("json: map with symbolic or non-string key"))
			}
			kvs = append(kvs, kv{ks, e})
		}
		sort.Slice(kvs, func(i, j int) bool { return kvs[i].k < kvs[j].k })
		for _, x := range kvs {
			sub, err := m.jsonEncode(fr, ut.Elem(), x.e.v, depth+1)
			if err != nil {
				return nil, err
			}
			n.obj = append(n.obj, jfield{x.k, sub})
		}
		return n, nil
	case *types.Signature, *types.Chan:
		return nil, m.newError("json: unsupported type: " + t.String())
	}
	panic(m.unsupported("json encode of %v", t))
}

func (m *Machine) jsonIsEmpty(t types.Type, v value) bool {
	switch ut := t.Underlying().(type) {
	case *types.Basic:
		switch {
		case ut.Info()&types.IsBoolean != 0:
			return m.branch(m.tt.Not(v.(*Term)), "omitempty bool")
		case ut.Info()&types.IsInteger != 0:
			x := v.(*Term)
			return m.branch(m.tt.Eq(x, m.tt.Const(x.Sort, 0)), "omitempty int")
		case ut.Info()&types.IsFloat != 0:
			x := v.(*Term)
			return m.branch(m.tt.FBin(OpFEq, x, m.tt.FConst(x.Sort, 0)), "omitempty float")
		case ut.Info()&types.IsString != 0:
			return strLen(v) == 0
		}
	case *types.Pointer:
		return v.(*value) == nil
	case *types.Interface:
		return v.(iface).t == nil
	case *types.Slice:
		return len(v.([]value)) == 0
	case *types.Map:
		mp := v.(*mapV)
		return mp == nil || mp.length() == 0
	case *types.Array:
		return len(v.(array)) == 0
	}
	return false
}

// ---- Unmarshal: tree -> Go value ----

func (m *Machine) jsonGeneric(n *jnode) value {
	anyT := types.NewInterfaceType(nil, nil)
	switch n.kind {
	case jNull:
		return iface{}
	case jBool:
		return iface{t: types.Typ[types.Bool], v: n.b}
	case jNum:
		return iface{t: types.Typ[types.Float64], v: n.f}
	case jStr:
		return iface{t: types.Typ[types.String], v: n.s}
	case jBytes:
		panic(m.unsupported("json: decoding a []byte node into interface{} (base64 text is not modelled)"))
	case jArr:
		s := make([]value, len(n.arr))
		for i, e := range n.arr {
			s[i] = m.jsonGeneric(e)
		}
		return iface{t: types.NewSlice(anyT), v: s}
	case jObj:
		mp := m.newMap(types.Typ[types.String])
		for _, f := range n.obj {
			m.mapSet(mp, f.key, m.jsonGeneric(f.val))
		}
		return iface{t: types.NewMap(types.Typ[types.String], anyT), v: mp}
	}
	panic("jsonGeneric")
}

func jkindName(k jkind) string {
	return [...]string{"null", "bool", "number", "string", "string", "array", "object"}[k]
}

// jsonDecodeInto stores node n into *p of type t. Returns an error message or "".
func (m *Machine) jsonDecodeInto(n *jnode, t types.Type, p *value) string {
	mismatch := func() string {
		return "json: cannot unmarshal " + jkindName(n.kind) + " into Go value of type " + t.String()
	}
	if n.kind == jNull {
		switch t.Underlying().(type) {
		case *types.Pointer, *types.Interface, *types.Slice, *types.Map:
			*p = m.zero(t)
		}
		return "" // null leaves other kinds unchanged
	}
	switch ut := t.Underlying().(type) {
	case *types.Interface:
		if ut.NumMethods() != 0 {
			return "json: cannot unmarshal into non-empty interface " + t.String()
		}
		*p = m.jsonGeneric(n)
		return ""
	case *types.Pointer:
		np := new(value)
		*np = m.zero(ut.Elem())
		if e := m.jsonDecodeInto(n, ut.Elem(), np); e != "" {
			return e
		}
		*p = np
		return ""
	case *types.Basic:
		switch {
		case ut.Info()&types.IsBoolean != 0:
			if n.kind != jBool {
				return mismatch()
			}
			*p = n.b
			return ""
		case ut.Info()&types.IsString != 0:
			if n.kind != jStr {
				return mismatch()
			}
			*p = n.s
			return ""
		case ut.Info()&types.IsFloat != 0:
			if n.kind != jNum {
				return mismatch()
			}
			*p = m.tt.FFromFP(n.f, FP(floatWidth(ut)))
			return ""
		case ut.Info()&types.IsInteger != 0:
			if n.kind != jNum {
				return mismatch()
			}
			w := intWidth(ut)
			unsigned := ut.Info()&types.IsUnsigned != 0
			if n.i == nil {
				// a float literal: integral values in range are accepted only if written without
				// fraction/exponent; the model accepts concrete integral floats, rejects others
				if !n.f.IsConst() {
					panic(m.unsupported("json: symbolic float64 decoded into an integer field"))
				}
				f := fpConstVal(n.f)
				if f != float64(int64(f)) {
					return mismatch()
				}
				n = &jnode{kind: jNum, f: n.f, i: m.tt.Const(BV(64), uint64(int64(f))), signed: true}
			}
			// range check
			var fits *Term
			tt := m.tt
			switch {
			case unsigned && !n.signed:
				if w == 64 {
					fits = tt.True
				} else {
					fits = tt.Bin(OpULe, n.i, tt.Const(BV(64), mask(w)))
				}
			case unsigned && n.signed:
				fits = tt.Bin(OpSLe, tt.Const(BV(64), 0), n.i)
				if w < 64 {
					fits = tt.And(fits, tt.Bin(OpSLe, n.i, tt.Const(BV(64), mask(w))))
				}
			case !unsigned && n.signed:
				if w == 64 {
					fits = tt.True
				} else {
					lo := tt.Const(BV(64), uint64(-(int64(1) << uint(w-1))))
					hi := tt.Const(BV(64), uint64(int64(1)<<uint(w-1)-1))
					fits = tt.And(tt.Bin(OpSLe, lo, n.i), tt.Bin(OpSLe, n.i, hi))
				}
			default: // signed target, unsigned source
				hi := tt.Const(BV(64), uint64(int64(1)<<uint(w-1)-1))
				fits = tt.Bin(OpULe, n.i, hi)
			}
			if !m.branch(fits, "json integer range") {
				return mismatch()
			}
			*p = tt.Extract(n.i, w-1, 0)
			return ""
		}
	case *types.Struct:
		if n.kind != jObj {
			return mismatch()
		}
		sv := (*p).(structure)
		for _, jf := range n.obj {
			idx := -1
			for i := 0; i < ut.NumFields(); i++ {
				tag := parseJSONTag(ut.Field(i), ut.Tag(i))
				if tag.skip {
					continue
				}
				if tag.name == jf.key {
					idx = i
					break
				}
				if idx < 0 && strings.EqualFold(tag.name, jf.key) {
					idx = i
				}
			}
			if idx < 0 {
				continue
			}
			fp := &sv[idx]
			if e := m.jsonDecodeInto(jf.val, ut.Field(idx).Type(), fp); e != "" {
				return e
			}
		}
		return ""
	case *types.Slice:
		if eb, ok := ut.Elem().Underlying().(*types.Basic); ok && eb.Kind() == types.Uint8 {
			switch n.kind {
			case jBytes:
				*p = m.sliceOfTerms(n.bytes)
				return ""
			case jStr:
				panic(m.unsupported("json: decoding a string node into []byte (base64 text is not modelled)"))
			}
			return mismatch()
		}
		if n.kind != jArr {
			return mismatch()
		}
		s := make([]value, len(n.arr))
		for i, e := range n.arr {
			s[i] = m.zero(ut.Elem())
			if msg := m.jsonDecodeInto(e, ut.Elem(), &s[i]); msg != "" {
				return msg
			}
		}
		*p = s
		return ""
	case *types.Map:
		if n.kind != jObj {
			return mismatch()
		}
		mp, _ := (*p).(*mapV)
		if mp == nil {
			mp = m.newMap(ut.Key())
		}
		for _, jf := range n.obj {
			cell := m.zero(ut.Elem())
			if msg := m.jsonDecodeInto(jf.val, ut.Elem(), &cell); msg != "" {
				return msg
			}
			m.mapSet(mp, jf.key, cell)
		}
		*p = mp
		return ""
	}
	panic(m.unsupported("json decode into %v", t))
}

func (m *Machine) jsonUnmarshalNode(n *jnode, target iface) value {
	pt, ok := target.t.Underlying().(*types.Pointer)
	if !ok || target.v.(*value) == nil {
		return m.newError("json: Unmarshal(non-pointer or nil)")
	}
	if msg := m.jsonDecodeInto(n, pt.Elem(), target.v.(*value)); msg != "" {
		return m.newError(msg)
	}
	return iface{}
}

// invoke calls method name on an interface value.
func (m *Machine) invoke(fr *frame, recv iface, name string, args ...value) value {
	if recv.t == nil {
		panic(m.runtimePanic("invalid memory address or nil pointer dereference"))
	}
	ms := m.P.Prog.MethodSets.MethodSet(recv.t)
	for i := 0; i < ms.Len(); i++ {
		if ms.At(i).Obj().Name() == name {
			fn := m.P.Prog.MethodValue(ms.At(i))
			return m.callSSA(fr, fn, append([]value{recv.v}, args...), nil)
		}
	}
	panic(m.unsupported("method %s not found on %v", name, recv.t))
}

type jsonDecoderState struct {
	r       iface
	pending []*jnode
	loaded  bool
	err     string
}

func registerJSONNatives(P *Program, reg func(string, func(fr *frame, args []value) value)) {
	marshal := func(fr *frame, v value) (value, value) {
		m := fr.m
		iv := v.(iface)
		if iv.t == nil {
			return m.jsonHandle(&jnode{kind: jNull}), iface{}
		}
		n, err := m.jsonEncode(fr, iv.t, iv.v, 0)
		if err != nil {
			return []value(nil), err
		}
		return m.jsonHandle(n), iface{}
	}
	reg("encoding/json.Marshal", func(fr *frame, a []value) value {
		b, err := marshal(fr, a[0])
		return tuple{b, err}
	})
	reg("encoding/json.MarshalIndent", func(fr *frame, a []value) value {
		b, err := marshal(fr, a[0])
		return tuple{b, err}
	})
	reg("encoding/json.Unmarshal", func(fr *frame, a []value) value {
		m := fr.m
		nodes, err := m.jsonParseStream(m.bytesOf(a[0]))
		if err != nil {
			return m.newError(err.Error())
		}
		if len(nodes) == 0 {
			return m.newError("unexpected end of JSON input")
		}
		if len(nodes) > 1 {
			return m.newError("invalid character after top-level value")
		}
		return m.jsonUnmarshalNode(nodes[0], a[1].(iface))
	})
	encs := func(m *Machine) map[*value]iface {
		t, _ := m.models["json-enc"].(map[*value]iface)
		if t == nil {
			t = map[*value]iface{}
			m.models["json-enc"] = t
		}
		return t
	}
	decs := func(m *Machine) map[*value]*jsonDecoderState {
		t, _ := m.models["json-dec"].(map[*value]*jsonDecoderState)
		if t == nil {
			t = map[*value]*jsonDecoderState{}
			m.models["json-dec"] = t
		}
		return t
	}
	reg("encoding/json.NewEncoder", func(fr *frame, a []value) value {
		p := new(value)
		*p = structure{}
		encs(fr.m)[p] = a[0].(iface)
		return p
	})
	nop := func(fr *frame, a []value) value { return nil }
	reg("(*encoding/json.Encoder).SetEscapeHTML", nop)
	reg("(*encoding/json.Encoder).SetIndent", nop)
	reg("(*encoding/json.Encoder).Encode", func(fr *frame, a []value) value {
		m := fr.m
		w := encs(m)[a[0].(*value)]
		b, err := marshal(fr, a[1])
		if e := err.(iface); e.t != nil {
			return err
		}
		out := append(append([]value(nil), b.([]value)...), m.tt.Const(BV(8), '\n'))
		res := m.invoke(fr, w, "Write", out).(tuple)
		return res[1]
	})
	reg("encoding/json.NewDecoder", func(fr *frame, a []value) value {
		p := new(value)
		*p = structure{}
		decs(fr.m)[p] = &jsonDecoderState{r: a[0].(iface)}
		return p
	})
	reg("(*encoding/json.Decoder).UseNumber", nop)
	reg("(*encoding/json.Decoder).DisallowUnknownFields", nop)
	reg("(*encoding/json.Decoder).Decode", func(fr *frame, a []value) value {
		m := fr.m
		st := decs(m)[a[0].(*value)]
		if !st.loaded {
			st.loaded = true
			// read everything the reader has (io.ReadAll semantics)
			f := m.P.Func("io", "ReadAll")
			res := m.callSSA(fr, f, []value{st.r}, nil).(tuple)
			if e := res[1].(iface); e.t != nil {
				return res[1]
			}
			nodes, err := m.jsonParseStream(m.bytesOf(res[0]))
			st.pending = nodes
			if err != nil {
				st.err = err.Error()
			}
		}
		if len(st.pending) == 0 {
			if st.err != "" {
				return m.newError(st.err)
			}
			// io.EOF
			eof := m.P.byPath["io"].Var("EOF")
			return m.load(m.globalAddr(eof))
		}
		n := st.pending[0]
		st.pending = st.pending[1:]
		return m.jsonUnmarshalNode(n, a[1].(iface))
	})
}
