package sym

// fmtmodel.go: fmt.Sprintf / Sprint / Sprintln / Errorf / Fprintf / Fprint / Fprintln over
// interpreter values. Concrete operands are formatted by the host's fmt with the verb and
// flags as written (same standard library as the code under test). Symbolic operands are
// supported for the verbs that matter for data (not messages):
//
//	%d %v   of a symbolic integer (no flags)        decimal digits as terms (forks on the length)
//	%s %v   of a string / []byte with symbolic bytes the bytes
//	%x %X   of a symbolic byte string, or of a symbolic uint8 with flag "02"   hex digits as terms
//	%t %v   of a symbolic bool                       forks
//
// Anything else symbolic prints as "?" (as before); error values print their Error(),
// Stringers their String(). Errorf with %w returns a *fmt.wrapError (Unwrap works).

import (
	"fmt"
	"go/types"
	"strings"
)

type fmtOut struct {
	m  *Machine
	bs []*Term
}

func (o *fmtOut) str(s string) {
	for i := 0; i < len(s); i++ {
		o.bs = append(o.bs, o.m.tt.Const(BV(8), uint64(s[i])))
	}
}
func (o *fmtOut) terms(ts []*Term) { o.bs = append(o.bs, ts...) }

// hostValue converts a fully concrete interpreter value into a Go value that the host's fmt
// prints the same way.
func (m *Machine) hostValue(t types.Type, v value) (interface{}, bool) {
	switch x := v.(type) {
	case string:
		return x, true
	case *Term:
		if !x.IsConst() {
			return nil, false
		}
		if x.Sort.K == SBool {
			return x.Val == 1, true
		}
		if x.Sort.K == SFP {
			f := fpConstVal(x)
			if x.Sort.W == 32 {
				return float32(f), true
			}
			return f, true
		}
		unsigned := false
		w := x.Sort.W
		if t != nil {
			if b, ok := t.Underlying().(*types.Basic); ok {
				unsigned = b.Info()&types.IsUnsigned != 0
			}
		}
		if unsigned {
			switch w {
			case 8:
				return uint8(x.Val), true
			case 16:
				return uint16(x.Val), true
			case 32:
				return uint32(x.Val), true
			}
			return x.Val, true
		}
		switch w {
		case 8:
			return int8(x.SVal()), true
		case 16:
			return int16(x.SVal()), true
		case 32:
			return int32(x.SVal()), true
		}
		return x.SVal(), true
	case []value:
		var et types.Type
		if t != nil {
			if s, ok := t.Underlying().(*types.Slice); ok {
				et = s.Elem()
			} else if a, ok := t.Underlying().(*types.Array); ok {
				et = a.Elem()
			}
		}
		if et != nil {
			if b, ok := et.Underlying().(*types.Basic); ok && b.Kind() == types.Uint8 {
				out := make([]byte, len(x))
				for i, e := range x {
					c, ok := e.(*Term)
					if !ok || !c.IsConst() {
						return nil, false
					}
					out[i] = byte(c.Val)
				}
				return out, true
			}
		}
		out := make([]interface{}, len(x))
		for i, e := range x {
			h, ok := m.hostValue(et, e)
			if !ok {
				return nil, false
			}
			out[i] = h
		}
		return out, true
	}
	return nil, false
}

func hexDigit(tt *TermTable, nib *Term, upper bool) *Term {
	a := uint64('a')
	if upper {
		a = 'A'
	}
	n8 := nib
	return tt.Ite(tt.Bin(OpULt, n8, tt.Const(BV(8), 10)), tt.Bin(OpAdd, n8, tt.Const(BV(8), '0')), tt.Bin(OpAdd, n8, tt.Const(BV(8), a-10)))
}

func (o *fmtOut) hexBytes(bs []*Term, upper bool) {
	tt := o.m.tt
	for _, b := range bs {
		hi := tt.Bin(OpLShr, b, tt.Const(BV(8), 4))
		lo := tt.Bin(OpBAnd, b, tt.Const(BV(8), 15))
		o.bs = append(o.bs, hexDigit(tt, hi, upper), hexDigit(tt, lo, upper))
	}
}

// value formats one operand. spec is the text between '%' and the verb.
func (o *fmtOut) value(t types.Type, v value, spec string, verb byte) {
	m := o.m
	if iv, ok := v.(iface); ok {
		if iv.t == nil {
			if verb == 'v' || verb == 's' {
				o.str("<nil>")
			} else {
				o.str("%!" + string(verb) + "(<nil>)")
			}
			return
		}
		if verb == 'T' {
			o.str(iv.t.String())
			return
		}
		if verb == 'v' || verb == 's' || verb == 'q' {
			if f := m.methodByName(iv.t, "Error"); f != nil {
				if s, ok := m.tryCallString(f, iv.v); ok {
					o.value(types.Typ[types.String], s, spec, verb)
					return
				}
			} else if f := m.methodByName(iv.t, "String"); f != nil {
				if s, ok := m.tryCallString(f, iv.v); ok {
					o.value(types.Typ[types.String], s, spec, verb)
					return
				}
			}
		}
		o.value(iv.t, iv.v, spec, verb)
		return
	}
	if h, ok := m.hostValue(t, v); ok {
		o.str(fmt.Sprintf("%"+spec+string(verb), h))
		return
	}
	tt := m.tt
	switch x := v.(type) {
	case symString:
		switch {
		case (verb == 's' || verb == 'v') && spec == "":
			o.terms(x)
		case (verb == 'x' || verb == 'X') && spec == "":
			o.hexBytes(x, verb == 'X')
		default:
			o.str("?str?")
		}
		return
	case *Term:
		switch x.Sort.K {
		case SBool:
			if m.branch(x, "fmt bool") {
				o.str("true")
			} else {
				o.str("false")
			}
			return
		case SBV:
			signed := true
			if t != nil {
				if b, ok := t.Underlying().(*types.Basic); ok {
					signed = b.Info()&types.IsUnsigned == 0
				}
			}
			switch {
			case (verb == 'd' || verb == 'v') && spec == "":
				o.terms(m.symDecimal(x, signed))
				return
			case (verb == 'x' || verb == 'X') && spec == "02" && x.Sort.W == 8:
				o.hexBytes([]*Term{x}, verb == 'X')
				return
			case verb == 'c' && x.Sort.W <= 32 && spec == "":
				o.terms(m.encodeRuneSym(tt.ZExt(x, 32)))
				return
			}
		}
		o.str("?")
		return
	case []value:
		// []byte with symbolic bytes
		if t != nil {
			var et types.Type
			if s, ok := t.Underlying().(*types.Slice); ok {
				et = s.Elem()
			} else if a, ok := t.Underlying().(*types.Array); ok {
				et = a.Elem()
			}
			if et != nil {
				if b, ok := et.Underlying().(*types.Basic); ok && b.Kind() == types.Uint8 {
					bs := make([]*Term, len(x))
					for i, e := range x {
						bs[i], _ = e.(*Term)
					}
					switch {
					case verb == 's' && spec == "":
						o.terms(bs)
						return
					case (verb == 'x' || verb == 'X') && spec == "":
						o.hexBytes(bs, verb == 'X')
						return
					}
				}
				o.str("[")
				for i, e := range x {
					if i > 0 {
						o.str(" ")
					}
					o.value(et, e, spec, verb)
				}
				o.str("]")
				return
			}
		}
		o.str("[")
		for i, e := range x {
			if i > 0 {
				o.str(" ")
			}
			o.value(nil, e, spec, verb)
		}
		o.str("]")
		return
	case *value:
		if x == nil {
			o.str("<nil>")
		} else {
			o.str("0xptr")
		}
		return
	}
	o.str(fmt.Sprintf("<%T>", v))
}

// formatTerms is fmt.Sprintf; wrapped receives the operand of the first %w, if any.
func (m *Machine) formatTerms(format string, args []value) (out []*Term, wrapped *iface) {
	o := &fmtOut{m: m}
	ai := 0
	for i := 0; i < len(format); i++ {
		c := format[i]
		if c != '%' {
			o.str(string(c))
			continue
		}
		i++
		start := i
		for i < len(format) && strings.IndexByte("+-# 0123456789.", format[i]) >= 0 {
			i++
		}
		if i >= len(format) {
			o.str("%!(NOVERB)")
			break
		}
		spec := format[start:i]
		verb := format[i]
		if verb == '%' {
			o.str("%")
			continue
		}
		if ai >= len(args) {
			o.str("%!" + string(verb) + "(MISSING)")
			continue
		}
		a := args[ai]
		ai++
		if verb == 'w' {
			if iv, ok := a.(iface); ok && wrapped == nil {
				cp := iv
				wrapped = &cp
			}
			verb = 'v'
		}
		o.value(nil, a, spec, verb)
	}
	return o.bs, wrapped
}

// format renders to a Go string; symbolic bytes print as '?' (messages only).
func (m *Machine) format(format string, args []value) string {
	ts, _ := m.formatTerms(format, args)
	return termsToDisplay(ts)
}

func termsToDisplay(ts []*Term) string {
	b := make([]byte, len(ts))
	for i, t := range ts {
		if t.IsConst() {
			b[i] = byte(t.Val)
		} else {
			b[i] = '?'
		}
	}
	return string(b)
}

func isStringOperand(v value) bool {
	iv, ok := v.(iface)
	if !ok || iv.t == nil {
		return false
	}
	b, ok := iv.t.Underlying().(*types.Basic)
	return ok && b.Info()&types.IsString != 0
}

// sprintTerms is fmt.Sprint (spaces between operands when neither is a string) or, with
// ln, fmt.Sprintln (always spaces, trailing newline).
func (m *Machine) sprintTerms(args []value, ln bool) []*Term {
	o := &fmtOut{m: m}
	for i, a := range args {
		if i > 0 && (ln || (!isStringOperand(a) && !isStringOperand(args[i-1]))) {
			o.str(" ")
		}
		o.value(nil, a, "", 'v')
	}
	if ln {
		o.str("\n")
	}
	return o.bs
}

func registerFmtNatives(P *Program, reg func(string, func(fr *frame, args []value) value)) {
	reg("fmt.Sprintf", func(fr *frame, a []value) value {
		ts, _ := fr.m.formatTerms(fr.m.str(a[0]), a[1].([]value))
		return fr.m.mkString(ts)
	})
	reg("fmt.Sprint", func(fr *frame, a []value) value { return fr.m.mkString(fr.m.sprintTerms(a[0].([]value), false)) })
	reg("fmt.Sprintln", func(fr *frame, a []value) value { return fr.m.mkString(fr.m.sprintTerms(a[0].([]value), true)) })
	reg("fmt.Errorf", func(fr *frame, a []value) value {
		m := fr.m
		ts, wrapped := m.formatTerms(m.str(a[0]), a[1].([]value))
		msg := m.mkString(ts)
		if wrapped != nil && wrapped.t != nil {
			if fp := m.P.byPath["fmt"]; fp != nil && fp.Type("wrapError") != nil {
				p := new(value)
				*p = structure{msg, *wrapped}
				return iface{t: types.NewPointer(fp.Type("wrapError").Type()), v: p}
			}
		}
		errs := m.P.byPath["errors"]
		p := new(value)
		*p = structure{msg}
		return iface{t: types.NewPointer(errs.Type("errorString").Type()), v: p}
	})
	// Fprint*: format, then one Write on the destination (as fmt does)
	fprint := func(fr *frame, w value, ts []*Term) value {
		m := fr.m
		iw, ok := w.(iface)
		if !ok || iw.t == nil {
			panic(m.runtimePanic("invalid memory address or nil pointer dereference"))
		}
		buf := make([]value, len(ts))
		for i, t := range ts {
			buf[i] = t
		}
		r := m.invoke(fr, iw, "Write", buf)
		if tp, ok := r.(tuple); ok {
			return tp
		}
		return tuple{m.intConst(int64(len(ts))), iface{}}
	}
	reg("fmt.Fprintf", func(fr *frame, a []value) value {
		ts, _ := fr.m.formatTerms(fr.m.str(a[1]), a[2].([]value))
		return fprint(fr, a[0], ts)
	})
	reg("fmt.Fprint", func(fr *frame, a []value) value { return fprint(fr, a[0], fr.m.sprintTerms(a[1].([]value), false)) })
	reg("fmt.Fprintln", func(fr *frame, a []value) value { return fprint(fr, a[0], fr.m.sprintTerms(a[1].([]value), true)) })
	tupleNil := func(fr *frame, a []value) value { return tuple{fr.m.intConst(0), iface{}} }
	for _, n := range []string{"fmt.Println", "fmt.Printf", "fmt.Print"} {
		reg(n, tupleNil)
	}
}
