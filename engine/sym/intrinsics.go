package sym

// intrinsics.go: the verif.* harness API and engine-side models of runtime-level functions.

import (
	"crypto/md5"
	"crypto/sha1"
	"crypto/sha256"
	"crypto/sha512"
	"fmt"
	"go/types"
	"os"
	"strings"

	"golang.org/x/tools/go/ssa"
)

const verifPkg = "hcverif/verif"
const modelsPkg = "hcverif/models"

// packages whose package initialiser may be interpreted (lazily, on first global access)
var initAllowed = map[string]bool{
	"errors": true, "io": true, "bytes": true, "bufio": true, "strings": true, "strconv": true,
	"encoding/binary": true, "encoding/hex": true, "encoding/base64": true, "unicode/utf8": true,
	"sort": true, "math": true, "math/bits": true, "io/ioutil": true, "path": true, "path/filepath": true,
	"internal/oserror": true, "io/fs": true, "internal/bytealg": true, "internal/itoa": true,
	"github.com/xiam/to": true, "container/list": true, "slices": true, "cmp": true, "internal/stringslite": true,
	"unicode": false, "hash": true, "crypto/subtle": true, "internal/byteorder": true,
	"net/url": true, "mime": false, "unicode/utf16": true, "encoding": true,
}

func initIsAllowed(path string) bool {
	if v, ok := initAllowed[path]; ok {
		return v
	}
	return strings.HasPrefix(path, "github.com/brutella/hc") || strings.HasPrefix(path, "hcverif/")
}

func (m *Machine) str(v value) string {
	s, ok := v.(string)
	if !ok {
		panic(m.unsupported("expected concrete string, got %T", v))
	}
	return s
}

func (m *Machine) assume(c *Term) {
	if c.IsConst() {
		if c.Val == 0 {
			panic(pathAbort{abortInfeasible, "assume(false)"})
		}
		return
	}
	if m.pcSet[c] {
		return
	}
	if m.pos >= len(m.prefix) {
		// beyond the replayed prefix: check that the assumption leaves the path feasible
		switch m.check(c) {
		case Unsat:
			panic(pathAbort{abortInfeasible, "assumption unsatisfiable on this path"})
		case Unknown:
			m.unknownBr++
		}
	}
	m.addPC(c)
}

func (m *Machine) assert(c *Term, label string) {
	ob := &Obligation{Harness: m.harness, Label: label, PathLen: len(m.pc)}
	m.obls = append(m.obls, ob)
	m.ex.addTransitions(1)
	folds := m.tt.SymFolds
	symbolic := folds != m.foldMark
	m.foldMark = folds
	if c.IsConst() {
		if c.Val == 1 {
			ob.Verdict = "ground-true"
			if symbolic {
				ob.Verdict = "folded-true" // symbolic operands, decided by term normalisation
			}
			return
		}
		// the condition is false outright: a violation iff this path is feasible at all
		switch m.check() {
		case Unsat:
			m.obls = m.obls[:len(m.obls)-1]
			panic(pathAbort{abortInfeasible, "path condition unsatisfiable (after an undecided branch)"})
		case Unknown:
			ob.Verdict = "unknown"
			panic(pathAbort{abortUnknown, "ground-false assertion " + label + " on a path whose feasibility the solver could not decide"})
		}
		ob.Verdict = "ground-false"
		m.captureCex(ob, nil)
		return // the path continues (in the violated state) so that later checks are still made
	}
	ob.FreeVars = countVars(c)
	nc := m.tt.Not(c)
	t0 := nowMillis()
	v := m.check(nc)
	ob.Millis = nowMillis() - t0
	switch v {
	case Unsat:
		ob.Verdict = "unsat"
		m.pcSet[c] = true
	case Sat:
		ob.Verdict = "sat"
		m.captureCex(ob, nc)
		// continue under the assumption that the assertion holds, if possible
		if m.check(c) != Unsat {
			m.addPC(c)
		}
	default:
		ob.Verdict = "unknown"
		m.addPC(c)
	}
}

func (m *Machine) captureCex(ob *Obligation, extra *Term) {
	var model map[string]uint64
	if extra != nil {
		model, _ = m.model(extra)
	} else {
		model, _ = m.model()
	}
	if model == nil {
		model = map[string]uint64{}
	}
	for k, v := range m.fixedVals() {
		model[k] = v
	}
	ob.Model = model
	ob.Decs = append([]int64(nil), m.decisions...)
	ob.Nondet = append([]NondetVar(nil), m.nondet...)
	ob.Facts = map[string]string{}
	for k, v := range m.facts {
		ob.Facts[k] = v
	}
	ob.Trace = append([]string(nil), m.trace...)
}

func (m *Machine) fixedVals() map[string]uint64 {
	fv, _ := m.models["fixed"].(map[string]uint64)
	return fv
}

func (m *Machine) setFixed(name string, v uint64) {
	fv, _ := m.models["fixed"].(map[string]uint64)
	if fv == nil {
		fv = map[string]uint64{}
		m.models["fixed"] = fv
	}
	fv[name] = v
}

func countVars(t *Term) int {
	seen := map[*Term]bool{}
	n := 0
	var walk func(t *Term)
	walk = func(t *Term) {
		if seen[t] {
			return
		}
		seen[t] = true
		if t.Op == OpVar {
			n++
		}
		for _, a := range t.Args {
			walk(a)
		}
	}
	walk(t)
	return n
}

func (m *Machine) violateForbid(fn, label string) {
	ob := &Obligation{Harness: m.harness, Label: label, PathLen: len(m.pc), Verdict: "sat"}
	m.obls = append(m.obls, ob)
	m.facts["forbidden_call"] = fn
	m.captureCex(ob, nil)
	delete(m.forbid, fn) // report once per path
}

func (m *Machine) noteCall(name string) { m.callCount[name]++ }

func (m *Machine) bytesOf(v value) []*Term {
	s := v.([]value)
	out := make([]*Term, len(s))
	for i, e := range s {
		out[i] = e.(*Term)
	}
	return out
}

func (m *Machine) sliceOfTerms(ts []*Term) []value {
	out := make([]value, len(ts))
	for i, t := range ts {
		out[i] = t
	}
	return out
}

func (m *Machine) symBytes(name string, n int, replayable bool) []value {
	out := make([]value, n)
	for i := range out {
		nm := fmt.Sprintf("%s[%d]", name, i)
		if replayable {
			out[i] = m.newVar(nm, BV(8), "u8")
		} else {
			out[i] = m.tt.Var(nm, BV(8))
		}
	}
	return out
}

// uf implements an uninterpreted function over byte strings with functional consistency
// (Ackermann constraints added to the path condition) and, when injective, collision freedom.
func (m *Machine) uf(name string, outLen int, args [][]*Term, injective bool) []*Term {
	rows := m.ufRows[name]
	// syntactic hit
	for _, r := range rows {
		if len(r.res) != outLen || len(r.args) != len(args) {
			continue
		}
		same := true
		for i := range args {
			if len(args[i]) != len(r.args[i]) {
				same = false
				break
			}
			for j := range args[i] {
				if args[i][j] != r.args[i][j] {
					same = false
					break
				}
			}
			if !same {
				break
			}
		}
		if same {
			return r.res
		}
	}
	idx := len(rows)
	res := make([]*Term, outLen)
	if d := realDigest(name, outLen, args); d != nil {
		// a standard hash of a fully concrete input: the real digest (still a row of the
		// function, so that the collision-freedom constraints relate it to symbolic inputs)
		for i := range res {
			res[i] = m.tt.Const(BV(8), uint64(d[i]))
		}
	} else {
		for i := range res {
			res[i] = m.tt.Var(fmt.Sprintf("uf:%s#%d[%d]", name, idx, i), BV(8))
		}
	}
	row := &ufRow{args: args, res: res}
	for _, r := range rows {
		if len(r.res) != outLen {
			continue
		}
		argsEq := m.tt.True
		comparable := len(r.args) == len(args)
		if comparable {
			for i := range args {
				if len(args[i]) != len(r.args[i]) {
					comparable = false
					break
				}
			}
		}
		resEq := m.bytesEqTerm(r.res, res)
		if !comparable {
			if injective && outLen >= 16 {
				m.addPC(m.tt.Not(resEq))
			}
			continue
		}
		var cs []*Term
		for i := range args {
			cs = append(cs, m.bytesEqTerm(args[i], r.args[i]))
		}
		argsEq = m.tt.AndN(cs)
		if argsEq.IsFalse() {
			if injective && outLen >= 16 {
				m.addPC(m.tt.Not(resEq))
			}
			continue
		}
		if injective && outLen >= 16 {
			m.addPC(m.tt.Eq(argsEq, resEq))
		} else {
			m.addPC(m.tt.Or(m.tt.Not(argsEq), resEq))
		}
	}
	m.ufRows[name] = append(rows, row)
	return res
}

func nowMillis() float64 { return float64(nowNano()) / 1e6 }

func registerNatives(P *Program) {
	reg := func(name string, fn func(fr *frame, args []value) value) {
		P.natives[name] = &native{name: name, fn: fn}
	}
	V := func(n string) string { return verifPkg + "." + n }

	reg(V("Thorough"), func(fr *frame, a []value) value { return fr.m.tt.Bool(os.Getenv("VERIF_TIER") == "thorough") })
	reg(V("Budget"), func(fr *frame, a []value) value {
		fr.m.lim.MaxSteps = fr.m.concreteInt(a[0], "Budget")
		return nil
	})
	reg(V("UseSolver"), func(fr *frame, a []value) value { fr.m.oneShotKind = fr.m.str(a[0]); return nil })
	reg(V("TempDir"), func(fr *frame, a []value) value { return "/vfs/" + fr.m.str(a[0]) })
	reg(V("CleanupTempDirs"), func(fr *frame, a []value) value { return nil })
	reg(V("IsSymbolic"), func(fr *frame, a []value) value { return fr.m.tt.True })
	reg(V("Bool"), func(fr *frame, a []value) value { return fr.m.newVar(fr.m.str(a[0]), BoolSort, "bool") })
	reg(V("U8"), func(fr *frame, a []value) value { return fr.m.newVar(fr.m.str(a[0]), BV(8), "u8") })
	reg(V("U16"), func(fr *frame, a []value) value { return fr.m.newVar(fr.m.str(a[0]), BV(16), "u16") })
	reg(V("U32"), func(fr *frame, a []value) value { return fr.m.newVar(fr.m.str(a[0]), BV(32), "u32") })
	reg(V("U64"), func(fr *frame, a []value) value { return fr.m.newVar(fr.m.str(a[0]), BV(64), "u64") })
	reg(V("I64"), func(fr *frame, a []value) value { return fr.m.newVar(fr.m.str(a[0]), BV(64), "u64") })
	reg(V("Int"), func(fr *frame, a []value) value {
		m := fr.m
		v := m.newVar(m.str(a[0]), BV(64), "u64")
		lo, hi := a[1].(*Term), a[2].(*Term)
		m.assume(m.tt.And(m.tt.Bin(OpSLe, lo, v), m.tt.Bin(OpSLe, v, hi)))
		return v
	})
	reg(V("F64"), func(fr *frame, a []value) value {
		m := fr.m
		return m.tt.FFromBits(m.newVar(m.str(a[0]), BV(64), "u64"))
	})
	reg(V("Bytes"), func(fr *frame, a []value) value {
		m := fr.m
		n := m.concreteInt(a[1], "Bytes length")
		return m.symBytes(m.str(a[0]), int(n), true)
	})
	reg(V("String"), func(fr *frame, a []value) value {
		m := fr.m
		n := m.concreteInt(a[1], "String length")
		bs := m.symBytes(m.str(a[0]), int(n), true)
		ts := make([]*Term, len(bs))
		for i := range bs {
			ts[i] = bs[i].(*Term)
		}
		return m.mkString(ts)
	})
	reg(V("Fresh"), func(fr *frame, a []value) value {
		m := fr.m
		n := m.concreteInt(a[1], "Fresh length")
		return m.symBytes(m.freshName("fresh:"+m.str(a[0])), int(n), false)
	})
	reg(V("Choice"), func(fr *frame, a []value) value {
		m := fr.m
		n := m.concreteInt(a[1], "Choice n")
		if fv := m.fixedVals(); fv != nil {
			if prev, ok := fv[m.str(a[0])]; ok && int64(prev) < n {
				return m.intConst(int64(prev)) // same name, same choice (as in a native replay)
			}
		}
		k := m.choice(int(n), m.str(a[0]))
		m.setFixed(m.str(a[0]), uint64(k))
		return m.intConst(int64(k))
	})
	reg(V("Concrete"), func(fr *frame, a []value) value {
		m := fr.m
		return m.intConst(m.concreteInt(a[0], "Concrete"))
	})
	reg(V("Assume"), func(fr *frame, a []value) value { fr.m.assume(a[0].(*Term)); return nil })
	reg(V("Assert"), func(fr *frame, a []value) value { fr.m.assert(a[0].(*Term), fr.m.str(a[1])); return nil })
	reg(V("Unreachable"), func(fr *frame, a []value) value { fr.m.assert(fr.m.tt.False, fr.m.str(a[0])); return nil })
	reg(V("Reach"), func(fr *frame, a []value) value { fr.m.reached = append(fr.m.reached, fr.m.str(a[0])); return nil })
	reg(V("Fact"), func(fr *frame, a []value) value { fr.m.facts[fr.m.str(a[0])] = fr.m.str(a[1]); return nil })
	reg(V("Trace"), func(fr *frame, a []value) value { fr.m.trace = append(fr.m.trace, fr.m.str(a[0])); return nil })
	reg(V("Observe"), func(fr *frame, a []value) value {
		m := fr.m
		m.observes = append(m.observes, observe{m.str(a[0]), m.bytesOf(a[1])})
		return nil
	})
	reg(V("ObserveInt"), func(fr *frame, a []value) value {
		m := fr.m
		m.observes = append(m.observes, observe{m.str(a[0]), []*Term{a[1].(*Term)}})
		return nil
	})
	reg(V("ObserveBool"), func(fr *frame, a []value) value {
		m := fr.m
		b := a[1].(*Term)
		m.observes = append(m.observes, observe{m.str(a[0]), []*Term{m.tt.Ite(b, m.intConst(1), m.intConst(0))}})
		return nil
	})
	reg(V("Eq"), func(fr *frame, a []value) value {
		m := fr.m
		x, y := a[0].([]value), a[1].([]value)
		if len(x) != len(y) {
			return m.tt.False
		}
		return m.bytesEqTerm(m.bytesOf(x), m.bytesOf(y))
	})
	reg(V("And"), func(fr *frame, a []value) value { return fr.m.tt.And(a[0].(*Term), a[1].(*Term)) })
	reg(V("Or"), func(fr *frame, a []value) value { return fr.m.tt.Or(a[0].(*Term), a[1].(*Term)) })
	reg(V("Implies"), func(fr *frame, a []value) value {
		return fr.m.tt.Or(fr.m.tt.Not(a[0].(*Term)), a[1].(*Term))
	})
	ite := func(fr *frame, a []value) value { return fr.m.tt.Ite(a[0].(*Term), a[1].(*Term), a[2].(*Term)) }
	reg(V("IteU8"), ite)
	reg(V("IteInt"), ite)
	runCatching := func(fr *frame, f value) (msg string, panicked bool) {
		m := fr.m
		depth := m.depth
		defer func() {
			if r := recover(); r != nil {
				tp, ok := r.(targetPanic)
				if !ok {
					panic(r)
				}
				m.depth = depth
				m.curFrame = fr
				panicked = true
				msg = m.panicString(tp)
			}
		}()
		m.call(fr, f, nil)
		return "", false
	}
	reg(V("Panics"), func(fr *frame, a []value) value {
		msg, p := runCatching(fr, a[0])
		if p {
			fr.m.facts["panic"] = msg
		}
		return fr.m.tt.Bool(p)
	})
	reg(V("Completes"), func(fr *frame, a []value) (ret value) {
		m := fr.m
		depth := m.depth
		ret = m.tt.True
		defer func() {
			if r := recover(); r != nil {
				if pa, ok := r.(pathAbort); ok && pa.kind == abortExit && strings.HasPrefix(pa.msg, "deadlock") {
					m.depth = depth
					m.curFrame = fr
					m.facts["blocked"] = pa.msg
					ret = m.tt.False
					return
				}
				if _, ok := r.(targetPanic); ok {
					// a panic ends f as well (Panics is the primitive to assert its absence)
					m.depth = depth
					m.curFrame = fr
					ret = m.tt.True
					return
				}
				panic(r)
			}
		}()
		m.call(fr, a[0], nil)
		return m.tt.True
	})
	reg(V("PanicValue"), func(fr *frame, a []value) value {
		msg, p := runCatching(fr, a[0])
		if p && msg == "" {
			msg = "panic"
		}
		return msg
	})
	reg(V("MakeCap"), func(fr *frame, a []value) value {
		fr.m.makeCap = int(fr.m.concreteInt(a[0], "MakeCap"))
		return nil
	})
	reg(V("MapOrderNondet"), func(fr *frame, a []value) value {
		fr.m.mapOrder = a[0].(*Term).IsTrue()
		return nil
	})
	reg(V("Forbid"), func(fr *frame, a []value) value { fr.m.forbid[fr.m.str(a[0])] = fr.m.str(a[1]); return nil })
	reg(V("Allow"), func(fr *frame, a []value) value { delete(fr.m.forbid, fr.m.str(a[0])); return nil })
	reg(V("Calls"), func(fr *frame, a []value) value { return fr.m.intConst(int64(fr.m.callCount[fr.m.str(a[0])])) })
	reg(V("UF"), func(fr *frame, a []value) value {
		m := fr.m
		name := m.str(a[0])
		outLen := int(m.concreteInt(a[1], "UF outLen"))
		var args [][]*Term
		for _, s := range a[2].([]value) {
			args = append(args, m.bytesOf(s))
		}
		inj := !strings.HasPrefix(name, "noninj:")
		return m.sliceOfTerms(m.uf(name, outLen, args, inj))
	})

	// ---- sync ----
	nop := func(fr *frame, a []value) value { return nil }
	for _, n := range []string{"(*sync.Mutex).Lock", "(*sync.Mutex).Unlock", "(*sync.RWMutex).Lock", "(*sync.RWMutex).Unlock",
		"(*sync.RWMutex).RLock", "(*sync.RWMutex).RUnlock", "(*sync.Mutex).TryLock", "(*sync.RWMutex).TryLock", "(*sync.RWMutex).TryRLock"} {
		name := n
		reg(name, func(fr *frame, a []value) value { return fr.m.mutexOp(fr, name, a[0]) })
	}
	reg("(*sync.Once).Do", func(fr *frame, a []value) value {
		m := fr.m
		done, _ := m.models["once"].(map[*value]bool)
		if done == nil {
			done = map[*value]bool{}
			m.models["once"] = done
		}
		p := a[0].(*value)
		if !done[p] {
			done[p] = true
			m.call(fr, a[1], nil)
		}
		return nil
	})
	reg("runtime.KeepAlive", nop)
	reg("runtime.SetFinalizer", nop)
	reg("runtime.Gosched", nop)
	reg("internal/race.Enabled", nop)

	// ---- log ----
	for _, n := range []string{"Printf", "Println", "Print", "SetOutput", "SetFlags", "SetPrefix"} {
		reg("(*log.Logger)."+n, nop)
		reg("log."+n, nop)
	}
	reg("(*log.Logger).Output", func(fr *frame, a []value) value { return iface{} })
	reg("log.New", func(fr *frame, a []value) value {
		p := new(value)
		*p = fr.m.zero(typeOfPtrElem(fr.m.P.Func("log", "New").Signature.Results().At(0).Type()))
		return p
	})
	for _, n := range []string{"Panic", "Panicf", "Panicln"} {
		msg := "log." + n
		f := func(fr *frame, a []value) value {
			panic(targetPanic{iface{t: types.Typ[types.String], v: msg + " called"}})
		}
		reg("(*log.Logger)."+n, f)
		reg("log."+n, f)
	}
	for _, n := range []string{"Fatal", "Fatalf", "Fatalln"} {
		f := func(fr *frame, a []value) value {
			fr.m.facts["fatal"] = "log.Fatal"
			panic(pathAbort{abortExit, "log.Fatal called (process exit)"})
		}
		reg("(*log.Logger)."+n, f)
		reg("log."+n, f)
	}
	reg("os.Exit", func(fr *frame, a []value) value { panic(pathAbort{abortExit, "os.Exit"}) })

	// ---- fmt ----
	registerFmtNatives(P, reg)

	// ---- internal/bytealg ----
	reg("internal/bytealg.IndexByte", func(fr *frame, a []value) value {
		return fr.m.indexByte(fr.m.bytesOf(a[0]), a[1].(*Term))
	})
	reg("internal/bytealg.IndexByteString", func(fr *frame, a []value) value {
		return fr.m.indexByte(fr.m.strBytes(a[0]), a[1].(*Term))
	})
	reg("internal/bytealg.CountString", func(fr *frame, a []value) value {
		return fr.m.countByte(fr.m.strBytes(a[0]), a[1].(*Term))
	})
	reg("internal/bytealg.Count", func(fr *frame, a []value) value {
		return fr.m.countByte(fr.m.bytesOf(a[0]), a[1].(*Term))
	})
	reg("internal/bytealg.Equal", func(fr *frame, a []value) value {
		x, y := fr.m.bytesOf(a[0]), fr.m.bytesOf(a[1])
		if len(x) != len(y) {
			return fr.m.tt.False
		}
		return fr.m.bytesEqTerm(x, y)
	})
	reg("internal/bytealg.Compare", func(fr *frame, a []value) value {
		m := fr.m
		x, y := m.bytesOf(a[0]), m.bytesOf(a[1])
		lt := m.strLess(x, y)
		gt := m.strLess(y, x)
		return m.tt.Ite(lt, m.intConst(-1), m.tt.Ite(gt, m.intConst(1), m.intConst(0)))
	})
	reg("internal/bytealg.IndexString", func(fr *frame, a []value) value {
		return fr.m.indexSub(fr.m.strBytes(a[0]), fr.m.strBytes(a[1]))
	})
	reg("internal/bytealg.Index", func(fr *frame, a []value) value {
		return fr.m.indexSub(fr.m.bytesOf(a[0]), fr.m.bytesOf(a[1]))
	})
	reg("internal/bytealg.MakeNoZero", func(fr *frame, a []value) value {
		m := fr.m
		n := m.concreteInt(a[0], "MakeNoZero")
		s := make([]value, n)
		z := m.tt.Const(BV(8), 0)
		for i := range s {
			s[i] = z
		}
		return s
	})
	ident := func(fr *frame, a []value) value { return a[0] }
	reg("internal/abi.NoEscape", ident)
	reg("strings.noescape", ident)
	reg("internal/abi.Escape", ident)
	reg("internal/stringslite.Clone", ident)
	reg("strings.Clone", ident)

	// ---- math ----
	reg("math.Float64bits", func(fr *frame, a []value) value { return fr.m.floatBits(a[0].(*Term)) })
	reg("math.Float32bits", func(fr *frame, a []value) value { return fr.m.floatBits(a[0].(*Term)) })
	reg("math.Float64frombits", func(fr *frame, a []value) value { return fr.m.tt.FFromBits(a[0].(*Term)) })
	reg("math.Float32frombits", func(fr *frame, a []value) value { return fr.m.tt.FFromBits(a[0].(*Term)) })
	reg("math.IsNaN", func(fr *frame, a []value) value { return fr.m.tt.FIsNaN(a[0].(*Term)) })
	reg("math.IsInf", func(fr *frame, a []value) value {
		m := fr.m
		f := a[0].(*Term)
		sign := a[1].(*Term)
		zero := m.tt.FConst(f.Sort, 0)
		inf := m.tt.FIsInf(f)
		pos := m.tt.FBin(OpFLt, zero, f)
		sz := m.tt.Const(sign.Sort, 0)
		return m.tt.And(inf, m.tt.Or(m.tt.Eq(sign, sz),
			m.tt.Ite(m.tt.Bin(OpSLt, sz, sign), pos, m.tt.Not(pos))))
	})

	// ---- sync/atomic on plain cells ----
	atomicLoad := func(fr *frame, a []value) value { return fr.m.load(a[0]) }
	atomicStore := func(fr *frame, a []value) value { fr.m.store(a[0], a[1]); return nil }
	atomicAdd := func(fr *frame, a []value) value {
		m := fr.m
		nv := m.tt.Bin(OpAdd, m.load(a[0]).(*Term), a[1].(*Term))
		m.store(a[0], nv)
		return nv
	}
	atomicCAS := func(fr *frame, a []value) value {
		m := fr.m
		old := m.load(a[0])
		var eq *Term
		if ot, ok := old.(*Term); ok {
			eq = m.tt.Eq(ot, a[1].(*Term))
		} else {
			eq = m.tt.Bool(ptrEq(old, a[1]))
		}
		if m.branch(eq, "cas") {
			m.store(a[0], a[2])
			return m.tt.True
		}
		return m.tt.False
	}
	for _, ty := range []string{"Int32", "Int64", "Uint32", "Uint64", "Uintptr", "Pointer"} {
		reg("sync/atomic.Load"+ty, atomicLoad)
		reg("sync/atomic.Store"+ty, atomicStore)
		reg("sync/atomic.Add"+ty, atomicAdd)
		reg("sync/atomic.CompareAndSwap"+ty, atomicCAS)
	}

	// ---- time ----
	reg("time.Now", func(fr *frame, a []value) value {
		return fr.m.zero(fr.m.P.Func("time", "Now").Signature.Results().At(0).Type())
	})
	reg("time.Sleep", nop)

	registerStrconvNatives(P, reg)
	registerJSONNatives(P, reg)
	registerHTTPNatives(P, reg)
	registerReflectNatives(P, reg)
	registerThreadNatives(P, reg)
	registerUnicodeNatives(P, reg)
	registerStdNatives(P, reg)
	registerChanNatives(P, reg)
}

func (m *Machine) panicString(tp targetPanic) string {
	switch v := tp.v.(type) {
	case iface:
		if v.t == nil {
			return "panic(nil)"
		}
		if s, ok := v.v.(string); ok {
			return s
		}
		// error values: try Error()
		return "panic of type " + v.t.String()
	case string:
		return v
	}
	return fmt.Sprintf("panic %T", tp.v)
}

// symDecimal renders a symbolic integer in decimal: the number of digits is decided by
// branching on the magnitude, the digits are div/rem terms.
func (m *Machine) symDecimal(t *Term, signed bool) []*Term {
	tt := m.tt
	u := tt.ZExt(t, 64)
	var out []*Term
	if signed {
		s := tt.SExt(t, 64)
		if m.branch(tt.Bin(OpSLt, s, tt.Const(BV(64), 0)), "decimal sign") {
			out = append(out, tt.Const(BV(8), '-'))
			u = tt.Neg(s)
		} else {
			u = s
		}
	}
	pow := uint64(10)
	k := 1
	for ; k < 20; k++ {
		if m.branch(tt.Bin(OpULt, u, tt.Const(BV(64), pow)), "decimal digits") {
			break
		}
		pow *= 10
	}
	div := uint64(1)
	for i := 1; i < k; i++ {
		div *= 10
	}
	for i := 0; i < k; i++ {
		d := tt.Bin(OpURem, tt.Bin(OpUDiv, u, tt.Const(BV(64), div)), tt.Const(BV(64), 10))
		out = append(out, tt.Bin(OpAdd, tt.Extract(d, 7, 0), tt.Const(BV(8), '0')))
		div /= 10
	}
	return out
}

func (m *Machine) newError(msg string) value {
	errs := m.P.byPath["errors"]
	ty := errs.Type("errorString").Type()
	p := new(value)
	*p = structure{msg}
	return iface{t: types.NewPointer(ty), v: p}
}

func (m *Machine) floatBits(f *Term) *Term {
	if f.IsConst() {
		return m.tt.Const(BV(f.Sort.W), f.Val)
	}
	if f.Op == OpFFromBits {
		return f.Args[0]
	}
	b := m.tt.Var(m.freshName("fbits"), BV(f.Sort.W))
	// b is some bit pattern of f (NaN payloads unconstrained, as in IEEE)
	m.addPC(m.tt.mk(OpEq, BoolSort, 0, 0, m.tt.FFromBits(b), f))
	return b
}

func (m *Machine) indexByte(s []*Term, c *Term) value {
	for i, b := range s {
		if m.branch(m.tt.Eq(b, c), "IndexByte") {
			return m.intConst(int64(i))
		}
	}
	return m.intConst(-1)
}

func (m *Machine) countByte(s []*Term, c *Term) value {
	n := m.intConst(0)
	one := m.intConst(1)
	for _, b := range s {
		n = m.tt.Bin(OpAdd, n, m.tt.Ite(m.tt.Eq(b, c), one, m.intConst(0)))
	}
	return n
}

func (m *Machine) indexSub(s, sub []*Term) value {
	for i := 0; i+len(sub) <= len(s); i++ {
		if m.branch(m.bytesEqTerm(s[i:i+len(sub)], sub), "Index") {
			return m.intConst(int64(i))
		}
	}
	return m.intConst(-1)
}

func (m *Machine) methodByName(t types.Type, name string) *ssa.Function {
	ms := m.P.Prog.MethodSets.MethodSet(t)
	for i := 0; i < ms.Len(); i++ {
		sel := ms.At(i)
		if sel.Obj().Name() == name {
			sig := sel.Type().(*types.Signature)
			if sig.Params().Len() == 0 && sig.Results().Len() == 1 {
				return m.P.Prog.MethodValue(sel)
			}
		}
	}
	return nil
}

func (m *Machine) tryCallString(f *ssa.Function, recv value) (s string, ok bool) {
	saved := m.curFrame
	depth := m.depth
	defer func() {
		if r := recover(); r != nil {
			if _, isAbort := r.(pathAbort); isAbort {
				if r.(pathAbort).kind != abortUnsupported {
					panic(r)
				}
			}
			m.curFrame = saved
			m.depth = depth
			s, ok = "?", true
		}
	}()
	r := m.callSSA(saved, f, []value{recv}, nil)
	if str, isStr := r.(string); isStr {
		return str, true
	}
	return "?str?", true
}

// realDigest computes H:<hash> for one fully concrete argument with the host's crypto.
func realDigest(name string, outLen int, args [][]*Term) []byte {
	if len(args) != 1 || !strings.HasPrefix(name, "H:") {
		return nil
	}
	in := make([]byte, len(args[0]))
	for i, t := range args[0] {
		if !t.IsConst() {
			return nil
		}
		in[i] = byte(t.Val)
	}
	var d []byte
	switch name {
	case "H:md5":
		x := md5.Sum(in)
		d = x[:]
	case "H:sha1":
		x := sha1.Sum(in)
		d = x[:]
	case "H:sha256":
		x := sha256.Sum256(in)
		d = x[:]
	case "H:sha512":
		x := sha512.Sum512(in)
		d = x[:]
	}
	if len(d) != outLen {
		return nil
	}
	return d
}
