module hcverif

go 1.23

require (
	github.com/brutella/hc v0.0.0
	github.com/tadglines/go-pkgs v0.0.0-20140924210655-1f86682992f1
	golang.org/x/tools v0.29.0
)

require (
	golang.org/x/mod v0.22.0 // indirect
	golang.org/x/sync v0.10.0 // indirect
)

replace github.com/brutella/hc => /repo
