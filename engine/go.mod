module hcverif

go 1.23

replace github.com/brutella/hc => /repo
