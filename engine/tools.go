//go:build never

package hcverif

import _ "github.com/brutella/hc"
