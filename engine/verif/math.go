package verif

import "math"

func mathFloat64frombits(b uint64) float64 { return math.Float64frombits(b) }
