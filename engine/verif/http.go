package verif

import (
	"net/http"
	"net/url"
	"sort"
)

// MuxHandler returns the handler registered for exactly this pattern (nil if none).
func MuxHandler(mux *http.ServeMux, pattern string) http.Handler {
	h, p := mux.Handler(&http.Request{Method: "GET", URL: &url.URL{Path: pattern}, Host: ""})
	if p != pattern {
		return nil
	}
	return h
}

// MuxPatterns lists the patterns among candidates that are registered on mux.
// (Natively the mux cannot be enumerated; the engine returns the recorded registrations,
// the native version probes the candidate list.)
func MuxPatterns(mux *http.ServeMux) []string {
	cands := []string{"/pair-setup", "/pair-verify", "/accessories", "/characteristics", "/pairings", "/identify", "/resource", "/prepare", "/secure-message", "/config"}
	var out []string
	for _, c := range cands {
		if MuxHandler(mux, c) != nil {
			out = append(out, c)
		}
	}
	sort.Strings(out)
	return out
}

// HandleSite is one call site of ServeMux.Handle/HandleFunc found in the library's SSA.
type HandleSite struct {
	Pattern string
	Func    string
	Wrapped bool // handler argument is syntactically the result of (*Server).Authenticate
	Bare    bool // handler argument is syntactically an endpoint constructor / plain function: certainly not wrapped
}

// HandleCallSites is answered by the engine from the SSA of /repo. Natively it marks the
// run as engine-only.
func HandleCallSites() []HandleSite {
	EngineOnly()
	return nil
}
