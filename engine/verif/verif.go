// Package verif is the harness library. Under the symbolic engine (hcsym) every function
// here is intercepted; the bodies below are the *native* semantics used when a harness is
// compiled by the Go toolchain and replayed on concrete inputs (counterexample replay and
// the concolic cross-check of the translator).
package verif

import (
	"time"
	"math/rand"
	"encoding/json"
	"fmt"
	"os"
	"runtime"
	"sort"
)

// ---- native replay state ----

type Input struct {
	Vals map[string]uint64 `json:"vals"`
}

type Outcome struct {
	Failed    []string           `json:"failed"`   // labels of failed asserts
	Passed    []string           `json:"passed"`   // labels of passed asserts
	Reached   []string           `json:"reached"`  // Reach labels
	AssumeBad bool               `json:"assume_bad"`
	Skipped   bool               `json:"skipped,omitempty"`
	Panic     string             `json:"panic,omitempty"`
	Observed  map[string][]int64 `json:"observed,omitempty"`
	Facts     map[string]string  `json:"facts,omitempty"`
}

var (
	cur  *Input
	out  *Outcome

)

type assumeFailed struct{}
type engineOnly struct{}

// EngineOnly marks a harness (or a path) that has no native counterpart (it asks the
// engine about the program's SSA); the native cross-check skips it.
func EngineOnly() { panic(engineOnly{}) }

// RunNative runs f on the given inputs and returns what happened.
func RunNative(in *Input, f func()) (o *Outcome) {
	cur = in
	out = &Outcome{Observed: map[string][]int64{}, Facts: map[string]string{}}
	o = out
	defer func() {
		if r := recover(); r != nil {
			if _, ok := r.(assumeFailed); ok {
				o.AssumeBad = true
				return
			}
			if _, ok := r.(engineOnly); ok {
				o.Skipped = true
				return
			}
			o.Panic = fmt.Sprint(r)
		}
	}()
	f()
	return o
}

// LoadInputs reads a JSON file with a list of inputs.
func LoadInputs(path string) ([]*Input, error) {
	b, err := os.ReadFile(path)
	if err != nil {
		return nil, err
	}
	var ins []*Input
	if err := json.Unmarshal(b, &ins); err != nil {
		return nil, err
	}
	return ins, nil
}

func val(name string) uint64 {
	if cur == nil {
		return 0
	}
	return cur.Vals[name]
}

// ---- inputs ----

func IsSymbolic() bool { return false }

func Bool(name string) bool { return val(name) != 0 }
func U8(name string) uint8  { return uint8(val(name)) }
func U16(name string) uint16 { return uint16(val(name)) }
func U32(name string) uint32 { return uint32(val(name)) }
func U64(name string) uint64 { return val(name) }
func I64(name string) int64  { return int64(val(name)) }

// Int is a symbolic int with lo <= v <= hi assumed (not case-split).
func Int(name string, lo, hi int) int {
	v := int(int64(val(name)))
	if v < lo || v > hi {
		panic(assumeFailed{})
	}
	return v
}

// F64 is an arbitrary float64 (any bit pattern).
func F64(name string) float64 {
	return f64frombits(val(name))
}

// Bytes returns n arbitrary bytes named name[0..n-1].
func Bytes(name string, n int) []byte {
	b := make([]byte, n)
	for i := range b {
		b[i] = byte(val(fmt.Sprintf("%s[%d]", name, i)))
	}
	return b
}

func String(name string, n int) string { return string(Bytes(name, n)) }

// Choice returns a value in 0..n-1; the engine explores every alternative.
func Choice(name string, n int) int {
	v := int(val(name))
	if v < 0 || v >= n {
		panic(assumeFailed{})
	}
	return v
}

// Concrete forces x to a concrete value (the engine enumerates all feasible values).
func Concrete(x int) int { return x }

// ---- control ----

func Assume(c bool) {
	if !c {
		panic(assumeFailed{})
	}
}

func Assert(c bool, label string) {
	if out == nil {
		if !c {
			panic("verif.Assert failed: " + label)
		}
		return
	}
	if c {
		out.Passed = append(out.Passed, label)
	} else {
		out.Failed = append(out.Failed, label)
	}
}

func Unreachable(label string) { Assert(false, label) }

func Reach(label string) {
	if out != nil {
		out.Reached = append(out.Reached, label)
	}
}

func Fact(key, val string) {
	if out != nil {
		out.Facts[key] = val
	}
}

// Observe records a value for the concolic cross-check (engine value under the model
// must equal the native value).
func Observe(name string, data []byte) {
	if out != nil {
		v := make([]int64, len(data))
		for i, b := range data {
			v[i] = int64(b)
		}
		out.Observed[name] = v
	}
}

func ObserveInt(name string, x int64) {
	if out != nil {
		out.Observed[name] = []int64{x}
	}
}

func ObserveBool(name string, b bool) {
	x := int64(0)
	if b {
		x = 1
	}
	ObserveInt(name, x)
}

// Eq is bytewise equality (one term under the engine, no forking).
func Eq(a, b []byte) bool {
	if len(a) != len(b) {
		return false
	}
	r := true
	for i := range a {
		if a[i] != b[i] {
			r = false
		}
	}
	return r
}

// And/Or/Not/Implies build conditions without branching (no forking under the engine).
func And(a, b bool) bool     { return a && b }
func Or(a, b bool) bool      { return a || b }
func Implies(a, b bool) bool { return !a || b }

// IteU8 etc. are branch-free selections.
func IteU8(c bool, a, b uint8) uint8 {
	if c {
		return a
	}
	return b
}
func IteInt(c bool, a, b int) int {
	if c {
		return a
	}
	return b
}

// Panics runs f and reports whether it panicked (Go panic of the code under test).
func Panics(f func()) (p bool) {
	defer func() {
		if r := recover(); r != nil {
			if _, ok := r.(assumeFailed); ok {
				panic(r)
			}
			p = true
		}
	}()
	f()
	return false
}

// Completes runs f and reports whether it returned. Under the engine "does not return" means
// that f blocks for ever (a lock that is never released, a channel nobody serves); natively f
// runs in its own goroutine and is given three seconds.
func Completes(f func()) bool {
	done := make(chan struct{})
	go func() {
		defer func() { recover(); close(done) }()
		f()
	}()
	select {
	case <-done:
		return true
	case <-time.After(3 * time.Second):
		return false
	}
}

// PanicValue runs f and returns the panic message ("" if none).
func PanicValue(f func()) (msg string) {
	defer func() {
		if r := recover(); r != nil {
			if _, ok := r.(assumeFailed); ok {
				panic(r)
			}
			msg = fmt.Sprint(r)
			if msg == "" {
				msg = "panic"
			}
		}
	}()
	f()
	return ""
}

// MakeCap tells the engine how to split symbolic make() lengths: exact classes 0..n and
// one class "> n" (materialised with n+1 cells). No-op natively.
func MakeCap(n int) {}

// MapOrderNondet makes map iteration order a symbolic choice. No-op natively.
func MapOrderNondet(on bool) {}

// Forbid makes entering the named function an assertion failure (label). No-op natively:
// native replays rely on the harness' own observable asserts.
func Forbid(fn, label string) {}
func Allow(fn string)         {}

// Calls returns how many times the named (intercepted or counted) function was entered.
// Natively unknown: returns -1.
func Calls(fn string) int { return -1 }

// UF is an uninterpreted function over byte strings with functional consistency and
// injectivity (collision freedom). Only models call it; natively it must not be reached.
func UF(name string, outLen int, args ...[]byte) []byte {
	panic("verif.UF called natively: " + name)
}

// Fresh returns n fresh symbolic bytes that are not replay inputs (model internals).
func Fresh(name string, n int) []byte {
	panic("verif.Fresh called natively: " + name)
}

// Trace appends a note to the path trace (engine) / no-op (native).
func Trace(msg string) {}

func f64frombits(b uint64) float64 {
	return mathFloat64frombits(b)
}

func SortedKeys(m map[string]bool) []string {
	var ks []string
	for k := range m {
		ks = append(ks, k)
	}
	sort.Strings(ks)
	return ks
}

// Thorough reports whether the check runs in the thorough tier (VERIF_TIER=thorough).
func Thorough() bool { return os.Getenv("VERIF_TIER") == "thorough" }

// Budget sets the per-path instruction budget (engine only).
func Budget(steps int) {}

// UseSolver routes the solver queries of this path to a one-shot back end
// ("cvc5-int" = cvc5 --solve-bv-as-int=sum). No-op natively.
func UseSolver(kind string) {}

// TempDir returns a fresh directory for storage harnesses: a real temporary directory
// natively (removed by the test process on exit is not guaranteed; it lives under
// os.TempDir()), a path inside the file-system model under the engine.
func TempDir(name string) string {
	d, err := os.MkdirTemp("", "hcverif-"+name+"-")
	if err != nil {
		panic(err)
	}
	tempDirs = append(tempDirs, d)
	return d
}

var tempDirs []string

// CleanupTempDirs removes the directories handed out by TempDir.
func CleanupTempDirs() {
	for _, d := range tempDirs {
		os.RemoveAll(d)
	}
	tempDirs = nil
}

// Yield is a scheduling point (stubs call it where an I/O operation may complete later).
// Natively it yields the processor and, one time in three, sleeps for up to two milliseconds,
// so that repeated native replays of a schedule-dependent counterexample visit different
// interleavings (and a goroutine blocked on a mutex for more than a millisecond is handed the
// lock by the Go runtime when it is released).
func Yield() {
	runtime.Gosched()
	switch rand.Intn(6) {
	case 0:
		time.Sleep(300 * time.Microsecond)
	case 1:
		time.Sleep(2 * time.Millisecond)
	}
}

// Preemptions bounds the number of preemptive context switches per schedule (engine only).
func Preemptions(n int) {}

// WatchField makes every access to a struct field of this name a scheduling point
// (engine only).
func WatchField(name string) {}

// Schedule returns the sequence of thread ids chosen at scheduling points (engine only).
func Schedule() string { return "" }
