package verif
