package models

// File-system model behind os.OpenFile / (*os.File).Read/Write/Close/Sync / os.Remove /
// os.Rename / os.MkdirAll / ioutil.ReadDir, with POSIX semantics for the flag bits hc
// passes. Files are (path, bytes); directories are implicit. Every operation is atomic and
// durable in program order (the property is about a killed process, not power loss, so the
// page cache survives). A crash can be injected before any mutating operation, or inside a
// Write after any prefix of the data.

import (
	"errors"
	"io"
	"io/fs"
	"os"
	"time"

	"hcverif/verif"
)

type mFile struct {
	path string
	data []byte
}

type mHandle struct {
	f      *mFile
	pos    int
	write  bool
	read   bool
	closed bool
}

var (
	fsFiles   []*mFile
	fsHandles = map[*os.File]*mHandle{}
	fsOps     int
	fsCrashAt = -1
	fsPartial int
	FSLog     []string
)

// FSCrash is the panic value of an injected crash.
type FSCrash struct{}

const nameMax = 255

func fsFind(path string) *mFile {
	for _, f := range fsFiles {
		if f.path == path {
			return f
		}
	}
	return nil
}

func fsBase(path string) string {
	for i := len(path) - 1; i >= 0; i-- {
		if path[i] == '/' {
			return path[i+1:]
		}
	}
	return path
}

// fsStep counts one mutating operation and crashes when its number is the crash point.
// It returns true when the crash falls inside this operation (only Write handles that).
func fsStep(what string, isWrite bool) bool {
	n := fsOps
	fsOps++
	if n == fsCrashAt {
		if isWrite {
			return true
		}
		panic(FSCrash{})
	}
	FSLog = append(FSLog, what)
	return false
}

// FSReset empties the model (harness setup).
func FSReset() { fsFiles = nil; fsOps = 0; fsCrashAt = -1; FSLog = nil }

// FSPut creates or replaces a file directly (harness setup of an arbitrary pre-state).
func FSPut(path string, data []byte) {
	if f := fsFind(path); f != nil {
		f.data = append([]byte{}, data...)
		return
	}
	fsFiles = append(fsFiles, &mFile{path: path, data: append([]byte{}, data...)})
}

// FSGet returns the content of a file (harness observation).
func FSGet(path string) ([]byte, bool) {
	if f := fsFind(path); f != nil {
		return f.data, true
	}
	return nil, false
}

func FSCount() int { return len(fsFiles) }
func FSOps() int   { return fsOps }

// FSSetCrash arms a crash: before mutating operation number `at` (counted from the call),
// or - if that operation is a Write - after `partial` bytes of it.
func FSSetCrash(at, partial int) { fsCrashAt = fsOps + at; fsPartial = partial }
func FSDisarm()                 { fsCrashAt = -1 }

// FSRun runs f and reports whether an injected crash ended it.
func FSRun(f func()) (crashed bool) {
	defer func() {
		if r := recover(); r != nil {
			if _, ok := r.(FSCrash); ok {
				crashed = true
				fsCrashAt = -1
				// a crash closes every descriptor
				for _, h := range fsHandles {
					h.closed = true
				}
				return
			}
			panic(r)
		}
	}()
	f()
	return false
}

func pathErr(op, path string, err error) error { return &fs.PathError{Op: op, Path: path, Err: err} }

var errNameTooLong = errors.New("file name too long")

func OpenFile(name string, flag int, perm os.FileMode) (*os.File, error) {
	if len(fsBase(name)) > nameMax {
		return nil, pathErr("open", name, errNameTooLong)
	}
	f := fsFind(name)
	acc := flag & 3
	if f == nil {
		if flag&os.O_CREATE == 0 {
			return nil, pathErr("open", name, fs.ErrNotExist)
		}
		fsStep("create "+name, false)
		f = &mFile{path: name}
		fsFiles = append(fsFiles, f)
	} else {
		if flag&os.O_CREATE != 0 && flag&os.O_EXCL != 0 {
			return nil, pathErr("open", name, fs.ErrExist)
		}
		if flag&os.O_TRUNC != 0 && acc != os.O_RDONLY {
			fsStep("truncate "+name, false)
			f.data = nil
		}
	}
	h := &mHandle{f: f, write: acc == os.O_WRONLY || acc == os.O_RDWR, read: acc == os.O_RDONLY || acc == os.O_RDWR}
	if flag&os.O_APPEND != 0 {
		h.pos = len(f.data)
	}
	osf := new(os.File)
	fsHandles[osf] = h
	return osf, nil
}

func Create(name string) (*os.File, error) {
	return OpenFile(name, os.O_RDWR|os.O_CREATE|os.O_TRUNC, 0666)
}

func Open(name string) (*os.File, error) { return OpenFile(name, os.O_RDONLY, 0) }

func FileWrite(osf *os.File, b []byte) (int, error) {
	h := fsHandles[osf]
	if h == nil || h.closed {
		return 0, fs.ErrClosed
	}
	if !h.write {
		return 0, pathErr("write", h.f.path, errors.New("bad file descriptor"))
	}
	n := len(b)
	crash := fsStep("write "+h.f.path, true)
	if crash {
		if fsPartial < n {
			n = fsPartial
		}
	}
	for i := 0; i < n; i++ {
		if h.pos < len(h.f.data) {
			h.f.data[h.pos] = b[i]
		} else {
			h.f.data = append(h.f.data, b[i])
		}
		h.pos++
	}
	if crash {
		panic(FSCrash{})
	}
	return n, nil
}

func FileWriteString(osf *os.File, s string) (int, error) { return FileWrite(osf, []byte(s)) }

func FileRead(osf *os.File, b []byte) (int, error) {
	h := fsHandles[osf]
	if h == nil || h.closed {
		return 0, fs.ErrClosed
	}
	if !h.read {
		return 0, pathErr("read", h.f.path, errors.New("bad file descriptor"))
	}
	if len(b) == 0 {
		return 0, nil
	}
	if h.pos >= len(h.f.data) {
		return 0, io.EOF
	}
	n := copy(b, h.f.data[h.pos:])
	h.pos += n
	return n, nil
}

func FileClose(osf *os.File) error {
	h := fsHandles[osf]
	if h == nil || h.closed {
		return fs.ErrClosed
	}
	h.closed = true
	return nil
}

func FileSync(osf *os.File) error {
	h := fsHandles[osf]
	if h == nil || h.closed {
		return fs.ErrClosed
	}
	return nil
}

func FileName(osf *os.File) string {
	if h := fsHandles[osf]; h != nil {
		return h.f.path
	}
	return ""
}

func Remove(name string) error {
	for i, f := range fsFiles {
		if f.path == name {
			fsStep("remove "+name, false)
			fsFiles = append(fsFiles[:i], fsFiles[i+1:]...)
			return nil
		}
	}
	return pathErr("remove", name, fs.ErrNotExist)
}

func Rename(oldpath, newpath string) error {
	if len(fsBase(newpath)) > nameMax {
		return pathErr("rename", newpath, errNameTooLong)
	}
	src := fsFind(oldpath)
	if src == nil {
		return pathErr("rename", oldpath, fs.ErrNotExist)
	}
	fsStep("rename "+oldpath+" -> "+newpath, false)
	if oldpath == newpath {
		return nil
	}
	for i, f := range fsFiles {
		if f.path == newpath {
			fsFiles = append(fsFiles[:i], fsFiles[i+1:]...)
			break
		}
	}
	src.path = newpath
	return nil
}

func MkdirAll(path string, perm os.FileMode) error { return nil }
func TempDir() string                              { return "/tmp" }

type mInfo struct {
	name string
	size int64
}

func (i mInfo) Name() string       { return i.name }
func (i mInfo) Size() int64        { return i.size }
func (i mInfo) Mode() fs.FileMode  { return 0644 }
func (i mInfo) ModTime() time.Time { return time.Time{} }
func (i mInfo) IsDir() bool        { return false }
func (i mInfo) Sys() interface{}   { return nil }

// ReadDir lists the files directly inside dir, sorted by name (ioutil.ReadDir).
func ReadDir(dir string) ([]os.FileInfo, error) {
	var names []string
	var sizes []int64
	for _, f := range fsFiles {
		if len(f.path) <= len(dir)+1 || f.path[:len(dir)] != dir || f.path[len(dir)] != '/' {
			continue
		}
		base := f.path[len(dir)+1:]
		sub := false
		for i := 0; i < len(base); i++ {
			if base[i] == '/' {
				sub = true
			}
		}
		if sub {
			continue
		}
		// insertion sort by name
		j := len(names)
		names = append(names, base)
		sizes = append(sizes, int64(len(f.data)))
		for j > 0 && names[j] < names[j-1] {
			names[j], names[j-1] = names[j-1], names[j]
			sizes[j], sizes[j-1] = sizes[j-1], sizes[j]
			j--
		}
	}
	out := make([]os.FileInfo, len(names))
	for i := range names {
		out[i] = mInfo{names[i], sizes[i]}
	}
	return out, nil
}

func ReadFile(name string) ([]byte, error) {
	f := fsFind(name)
	if f == nil {
		return nil, pathErr("open", name, fs.ErrNotExist)
	}
	return append([]byte{}, f.data...), nil
}

func WriteFile(name string, data []byte, perm os.FileMode) error {
	f, err := OpenFile(name, os.O_WRONLY|os.O_CREATE|os.O_TRUNC, perm)
	if err != nil {
		return err
	}
	_, err = FileWrite(f, data)
	if err1 := FileClose(f); err1 != nil && err == nil {
		err = err1
	}
	return err
}

func Abs(path string) (string, error) {
	if len(path) > 0 && path[0] == '/' {
		return path, nil
	}
	return "/cwd/" + path, nil
}

var _ = verif.Reach

// Stat / Lstat report on a file of the model.
func Stat(name string) (os.FileInfo, error) {
	f := fsFind(name)
	if f == nil {
		return nil, pathErr("stat", name, fs.ErrNotExist)
	}
	return mInfo{fsBase(name), int64(len(f.data))}, nil
}

// IsNotExist / IsExist as in package os (unwrap *PathError, compare with the sentinel).
func IsNotExist(err error) bool {
	if pe, ok := err.(*fs.PathError); ok {
		err = pe.Err
	}
	return err == fs.ErrNotExist
}

func IsExist(err error) bool {
	if pe, ok := err.(*fs.PathError); ok {
		err = pe.Err
	}
	return err == fs.ErrExist
}

// ErrorsIs models errors.Is (identity, Is method, Unwrap chain).
func ErrorsIs(err, target error) bool {
	for err != nil {
		if err == target {
			return true
		}
		if x, ok := err.(interface{ Is(error) bool }); ok && x.Is(target) {
			return true
		}
		u, ok := err.(interface{ Unwrap() error })
		if !ok {
			return false
		}
		err = u.Unwrap()
	}
	return target == nil
}

var tempCounter int

// CreateTemp creates a new file with a unique name in dir (os.CreateTemp / ioutil.TempFile).
func CreateTemp(dir, pattern string) (*os.File, error) {
	if dir == "" {
		dir = TempDir()
	}
	tempCounter++
	// as os.CreateTemp: the random part replaces the last "*" of the pattern, or is appended
	prefix, suffix := pattern, ""
	for i := len(pattern) - 1; i >= 0; i-- {
		if pattern[i] == '*' {
			prefix, suffix = pattern[:i], pattern[i+1:]
			break
		}
	}
	name := dir + "/" + prefix + "9" + string(rune('0'+tempCounter%10)) + string(rune('0'+(tempCounter/10)%10)) + "7" + suffix
	return OpenFile(name, os.O_RDWR|os.O_CREATE|os.O_EXCL, 0600)
}

func FileSeek(osf *os.File, offset int64, whence int) (int64, error) {
	h := fsHandles[osf]
	if h == nil || h.closed {
		return 0, fs.ErrClosed
	}
	base := 0
	switch whence {
	case 1:
		base = h.pos
	case 2:
		base = len(h.f.data)
	}
	p := base + int(offset)
	if p < 0 {
		return 0, pathErr("seek", h.f.path, errors.New("invalid argument"))
	}
	h.pos = p
	return int64(p), nil
}

func fsTruncate(f *mFile, size int64) {
	fsStep("truncate "+f.path, false)
	if int(size) <= len(f.data) {
		f.data = f.data[:size]
		return
	}
	for len(f.data) < int(size) {
		f.data = append(f.data, 0)
	}
}

func FileTruncate(osf *os.File, size int64) error {
	h := fsHandles[osf]
	if h == nil || h.closed {
		return fs.ErrClosed
	}
	fsTruncate(h.f, size)
	return nil
}

func Truncate(name string, size int64) error {
	f := fsFind(name)
	if f == nil {
		return pathErr("truncate", name, fs.ErrNotExist)
	}
	fsTruncate(f, size)
	return nil
}

func FileStat(osf *os.File) (os.FileInfo, error) {
	h := fsHandles[osf]
	if h == nil {
		return nil, fs.ErrClosed
	}
	return mInfo{fsBase(h.f.path), int64(len(h.f.data))}, nil
}

func RemoveAll(path string) error {
	for i := 0; i < len(fsFiles); {
		p := fsFiles[i].path
		if p == path || (len(p) > len(path) && p[:len(path)] == path && p[len(path)] == '/') {
			fsStep("remove "+p, false)
			fsFiles = append(fsFiles[:i], fsFiles[i+1:]...)
			continue
		}
		i++
	}
	return nil
}

func Mkdir(path string, perm os.FileMode) error { return nil }

func FileReadAt(osf *os.File, b []byte, off int64) (int, error) {
	h := fsHandles[osf]
	if h == nil || h.closed {
		return 0, fs.ErrClosed
	}
	if off < 0 {
		return 0, pathErr("readat", h.f.path, errors.New("negative offset"))
	}
	if int(off) >= len(h.f.data) {
		return 0, io.EOF
	}
	n := copy(b, h.f.data[off:])
	if n < len(b) {
		return n, io.EOF
	}
	return n, nil
}

func FileReaddirnames(osf *os.File, n int) ([]string, error) {
	h := fsHandles[osf]
	if h == nil || h.closed {
		return nil, fs.ErrClosed
	}
	infos, _ := ReadDir(h.f.path)
	var out []string
	for _, i := range infos {
		out = append(out, i.Name())
	}
	return out, nil
}

// mEntry is the fs.DirEntry of a regular file of the model.
type mEntry struct{ info mInfo }

func (e mEntry) Name() string               { return e.info.name }
func (e mEntry) IsDir() bool                { return false }
func (e mEntry) Type() fs.FileMode          { return 0 }
func (e mEntry) Info() (fs.FileInfo, error) { return e.info, nil }

// ReadDirEntries is os.ReadDir: the directory's files sorted by name.
func ReadDirEntries(dir string) ([]os.DirEntry, error) {
	infos, err := ReadDir(dir)
	if err != nil {
		return nil, err
	}
	out := make([]os.DirEntry, len(infos))
	for i, in := range infos {
		out[i] = mEntry{in.(mInfo)}
	}
	return out, nil
}
