package models

// Ideal (Dolev-Yao) cryptography. Every primitive is an uninterpreted function over byte
// strings (verif.UF: functional consistency + collision freedom), the relations that the
// real primitives guarantee are stated explicitly:
//
//   AEAD   Open(k,n,ad,c) succeeds iff (k,n,ad,c) is a logged Seal, and returns its plaintext
//          (correctness + INT-CTXT; an attacker that knows a key seals with it explicitly).
//   Sign   Verify(pk,m,s) is true iff s is a logged Sign(sk,m) with pk = pub(sk) (EUF-CMA).
//   DH     shared(a, pub(b)) = shared(b, pub(a)) for generated key pairs.
//   Hash / HKDF  uninterpreted, collision free; the hash constructor's identity is part
//          of the function symbol.

import (
	"crypto/cipher"
	"errors"
	"hash"
	"io"

	"hcverif/verif"
)

// ---- hashes ----

type ModelHash struct {
	ID   string
	Size_ int
	Blk  int
	buf  []byte
}

func (h *ModelHash) Write(p []byte) (int, error) { h.buf = append(h.buf, p...); return len(p), nil }
func (h *ModelHash) Sum(b []byte) []byte {
	return append(b, verif.UF("H:"+h.ID, h.Size_, h.buf)...)
}
func (h *ModelHash) Reset()         { h.buf = nil }
func (h *ModelHash) Size() int      { return h.Size_ }
func (h *ModelHash) BlockSize() int { return h.Blk }

func SHA512New() hash.Hash { return &ModelHash{ID: "sha512", Size_: 64, Blk: 128} }
func SHA256New() hash.Hash { return &ModelHash{ID: "sha256", Size_: 32, Blk: 64} }
func SHA1New() hash.Hash   { return &ModelHash{ID: "sha1", Size_: 20, Blk: 64} }
func MD5New() hash.Hash    { return &ModelHash{ID: "md5", Size_: 16, Blk: 64} }

func SHA512Sum512(data []byte) [64]byte {
	var out [64]byte
	copy(out[:], verif.UF("H:sha512", 64, data))
	return out
}

func MD5Sum(data []byte) [16]byte {
	var out [16]byte
	copy(out[:], verif.UF("H:md5", 16, data))
	return out
}

// ---- HKDF ----

// HKDFNew is Expand(Extract(secret, salt), info), as golang.org/x/crypto/hkdf defines it, so
// that a key derived in one step and the same key derived in two steps are the same term.
func HKDFNew(h func() hash.Hash, secret, salt, info []byte) io.Reader {
	return HKDFExpand(h, HKDFExtract(h, secret, salt), info)
}

// HKDFExtract / HKDFExpand: both steps are collision-free uninterpreted functions in
// 32-byte blocks (equal blocks imply equal inputs), so Expand(Extract(secret, salt), info)
// determines (secret, salt, info).
func HKDFExtract(h func() hash.Hash, secret, salt []byte) []byte {
	id, size := "unknown-hash", 64
	if mh, ok := h().(*ModelHash); ok {
		id, size = mh.ID, mh.Size_
	}
	var prk []byte
	for blk := 0; len(prk) < size; blk++ {
		n := size - len(prk)
		if n > 32 {
			n = 32
		}
		prk = append(prk, verif.UF("HKDF-extract:"+id+":"+string(rune('0'+blk)), n, secret, salt)...)
	}
	return prk
}

type hkdfExpandReader struct {
	id        string
	prk, info []byte
	stream    []byte
	off       int
}

func (r *hkdfExpandReader) Read(p []byte) (int, error) {
	for r.off+len(p) > len(r.stream) {
		if len(r.stream) >= 64 {
			panic("models: HKDF output beyond 64 bytes is not modelled")
		}
		blk := "0"
		if len(r.stream) == 32 {
			blk = "1"
		}
		r.stream = append(r.stream, verif.UF("HKDF-expand:"+r.id+":"+blk, 32, r.prk, r.info)...)
	}
	n := copy(p, r.stream[r.off:])
	r.off += n
	return n, nil
}

func HKDFExpand(h func() hash.Hash, prk, info []byte) io.Reader {
	id := "unknown-hash"
	if mh, ok := h().(*ModelHash); ok {
		id = mh.ID
	}
	return &hkdfExpandReader{id: id, prk: append([]byte{}, prk...), info: append([]byte{}, info...)}
}

// ---- AEAD (ChaCha20-Poly1305) ----

type sealRow struct {
	key, nonce, ad, pt, ct []byte
}

var sealLog []*sealRow

type ModelAEAD struct{ key []byte }

func AEADNew(key []byte) (cipher.AEAD, error) {
	if len(key) != 32 {
		return nil, errors.New("chacha20poly1305: bad key length")
	}
	return &ModelAEAD{key: append([]byte{}, key...)}, nil
}

func (a *ModelAEAD) NonceSize() int { return 12 }
func (a *ModelAEAD) Overhead() int  { return 16 }

func (a *ModelAEAD) Seal(dst, nonce, plaintext, additionalData []byte) []byte {
	if len(nonce) != 12 {
		panic("chacha20poly1305: bad nonce length passed to Seal")
	}
	ct := verif.UF("AEAD", len(plaintext)+16, a.key, nonce, additionalData, plaintext)
	sealLog = append(sealLog, &sealRow{key: a.key, nonce: append([]byte{}, nonce...), ad: append([]byte{}, additionalData...),
		pt: append([]byte{}, plaintext...), ct: ct})
	return append(dst, ct...)
}

var errOpen = errors.New("chacha20poly1305: message authentication failed")

func (a *ModelAEAD) Open(dst, nonce, ciphertext, additionalData []byte) ([]byte, error) {
	if len(nonce) != 12 {
		panic("chacha20poly1305: bad nonce length passed to Open")
	}
	if len(ciphertext) < 16 {
		return nil, errOpen
	}
	for _, r := range sealLog {
		if len(r.ct) != len(ciphertext) || len(r.ad) != len(additionalData) {
			continue
		}
		if verif.And(verif.And(verif.Eq(r.key, a.key), verif.Eq(r.nonce, nonce)),
			verif.And(verif.Eq(r.ad, additionalData), verif.Eq(r.ct, ciphertext))) {
			return append(dst, r.pt...), nil
		}
	}
	return nil, errOpen
}

// SealCount returns the number of Seal operations logged so far (harness bookkeeping).
func SealCount() int { return len(sealLog) }

// ---- Ed25519 ----

type signRow struct {
	sk, msg, sig []byte
}

var signLog []*signRow

// Ed25519 private keys are seed(32) || public(32), as in crypto/ed25519.
func Ed25519Pub(seed []byte) []byte { return verif.UF("ED-PUB", 32, seed) }

func Ed25519GenerateKey(rand io.Reader) ([]byte, []byte, error) {
	seed := make([]byte, 32)
	if rand == nil {
		copy(seed, FreshDistinct("ed25519-seed", 32))
	} else if _, err := io.ReadFull(rand, seed); err != nil {
		return nil, nil, err
	}
	pub := Ed25519Pub(seed)
	priv := append(append([]byte{}, seed...), pub...)
	return pub, priv, nil
}

func Ed25519Sign(priv, msg []byte) []byte {
	if len(priv) != 64 {
		panic("ed25519: bad private key length")
	}
	sig := verif.UF("ED-SIGN", 64, priv[:32], msg)
	signLog = append(signLog, &signRow{sk: append([]byte{}, priv[:32]...), msg: append([]byte{}, msg...), sig: sig})
	return sig
}

func Ed25519Verify(pub, msg, sig []byte) bool {
	if len(pub) != 32 {
		panic("ed25519: bad public key length")
	}
	if len(sig) != 64 {
		return false
	}
	for _, r := range signLog {
		if len(r.msg) != len(msg) {
			continue
		}
		if verif.And(verif.Eq(Ed25519Pub(r.sk), pub), verif.And(verif.Eq(r.msg, msg), verif.Eq(r.sig, sig))) {
			return true
		}
	}
	return false
}

// ---- Curve25519 ----

type dhKey struct {
	sk, pk []byte
}

var dhKeys []*dhKey

func x25519Pub(sk []byte) []byte {
	for _, k := range dhKeys {
		if verif.Eq(k.sk, sk) {
			return k.pk
		}
	}
	pk := verif.UF("X-PUB", 32, sk)
	dhKeys = append(dhKeys, &dhKey{sk: append([]byte{}, sk...), pk: pk})
	return pk
}

func x25519Shared(sk, otherPub []byte) []byte {
	my := x25519Pub(sk) // registers sk
	for _, k := range dhKeys {
		if verif.Eq(k.pk, otherPub) {
			// shared(sk, pub(k.sk)): symmetric function of the two public keys' owners
			a, b := my, k.pk
			// order the pair canonically by registration order
			ia, ib := dhIndex(my), dhIndex(k.pk)
			if ia > ib {
				a, b = b, a
			}
			return verif.UF("X-DH", 32, a, b)
		}
	}
	// other public key belongs to nobody we know: some unrelated value
	return verif.UF("X-DH1", 32, sk, otherPub)
}

func dhIndex(pk []byte) int {
	for i, k := range dhKeys {
		if verif.Eq(k.pk, pk) {
			return i
		}
	}
	return -1
}

func ScalarBaseMult(dst, scalar *[32]byte) {
	copy(dst[:], x25519Pub(scalar[:]))
}

func ScalarMult(dst, scalar, point *[32]byte) {
	copy(dst[:], x25519Shared(scalar[:], point[:]))
}

// ---- randomness ----

var randCount int
var freshLog [][]byte

// FreshDistinct returns n fresh random bytes; values of 16 bytes or more are assumed
// pairwise distinct from every earlier one of the same length (A6: independently drawn
// random keys, seeds and salts do not collide).
func FreshDistinct(name string, n int) []byte {
	v := verif.Fresh(name, n)
	if n >= 16 {
		for _, p := range freshLog {
			if len(p) == n {
				verif.Assume(!verif.Eq(p, v))
			}
		}
		freshLog = append(freshLog, v)
	}
	return v
}

// ConcreteRandomness makes crypto/rand deliver fixed, pairwise different byte strings
// instead of symbolic ones (for harnesses in which the random values only name things, e.g.
// a default device id that is formatted and compared many times).
var ConcreteRandomness bool

func RandRead(b []byte) (int, error) {
	randCount++
	if ConcreteRandomness {
		for i := range b {
			b[i] = byte(randCount*31 + i*7 + 1)
		}
		return len(b), nil
	}
	copy(b, FreshDistinct("rand", len(b)))
	return len(b), nil
}
