// Package models holds Go-source models that replace functions the engine cannot (or
// should not) interpret. They are compiled into the same SSA program as the harness and
// substituted by qualified name (see sym/subst.go).
package models

import (
	"encoding/binary"
	"io"
	"net/http"
)

// BinaryRead models encoding/binary.Read for the data kinds hc passes
// (*uint8, *uint16, *uint32, *uint64, *[]byte, *[N]byte for N in {16, 32}).
// A zero-length target never errors (binary.Read's dataSize == 0 case reads nothing).
func BinaryRead(r io.Reader, order binary.ByteOrder, data interface{}) error {
	switch d := data.(type) {
	case *uint8:
		var b [1]byte
		if _, err := io.ReadFull(r, b[:]); err != nil {
			return err
		}
		*d = b[0]
		return nil
	case *uint16:
		var b [2]byte
		if _, err := io.ReadFull(r, b[:]); err != nil {
			return err
		}
		*d = order.Uint16(b[:])
		return nil
	case *uint32:
		var b [4]byte
		if _, err := io.ReadFull(r, b[:]); err != nil {
			return err
		}
		*d = order.Uint32(b[:])
		return nil
	case *uint64:
		var b [8]byte
		if _, err := io.ReadFull(r, b[:]); err != nil {
			return err
		}
		*d = order.Uint64(b[:])
		return nil
	case *[]byte:
		_, err := io.ReadFull(r, *d)
		return err
	case *[16]byte:
		_, err := io.ReadFull(r, d[:])
		return err
	case *[32]byte:
		_, err := io.ReadFull(r, d[:])
		return err
	}
	panic("models.BinaryRead: unsupported data type")
}

// HexEncodeToString is branch-free lower-case hex (encoding/hex indexes a table with
// symbolic nibbles, which would fork 16 ways per digit).
func HexEncodeToString(src []byte) string {
	dst := make([]byte, len(src)*2)
	for i, v := range src {
		hi, lo := v>>4, v&0x0f
		dst[2*i] = '0' + hi + 39*((hi+6)>>4)
		dst[2*i+1] = '0' + lo + 39*((lo+6)>>4)
	}
	return string(dst)
}

// ParseUint models strconv.ParseUint for base 10 / 64 bits and at most 18 characters, where
// no overflow is possible, so the loop needs no overflow checks (the real function's
// cutoff comparisons on a symbolic accumulator cost the solver minutes). Longer inputs or
// other bases are outside the model.
func ParseUint(s string, base int, bitSize int) (uint64, error) {
	if base != 10 || (bitSize != 64 && bitSize != 0) || len(s) > 18 {
		panic("models.ParseUint: only base 10, 64 bits, <= 18 characters are modelled")
	}
	if len(s) == 0 {
		return 0, errSyntax
	}
	n := uint64(0)
	for i := 0; i < len(s); i++ {
		c := s[i]
		if c < '0' || c > '9' {
			return 0, errSyntax
		}
		n = n*10 + uint64(c-'0')
	}
	return n, nil
}

var errSyntax = errorString("strconv: invalid syntax")

type errorString string

func (e errorString) Error() string { return string(e) }

// HTTPError models net/http.Error: header, status, body.
func HTTPError(w http.ResponseWriter, msg string, code int) {
	w.Header().Set("Content-Type", "text/plain; charset=utf-8")
	w.WriteHeader(code)
	w.Write([]byte(msg + "\n"))
}

// ResponseWrite models (*http.Response).Write for the responses hc builds (status line,
// Content-Type, Content-Length, blank line, body). Header order and the exact spelling of
// the status line are wire details outside the model; hc's FixProtocolSpecifier rewrites
// the "HTTP/1.0" this emits.
func ResponseWrite(r *http.Response, w io.Writer) error {
	body, err := io.ReadAll(r.Body)
	if err != nil {
		return err
	}
	head := "HTTP/" + itoa(r.ProtoMajor) + "." + itoa(r.ProtoMinor) + " " + r.Status + "\r\n"
	if ct := r.Header.Get("Content-Type"); ct != "" {
		head += "Content-Type: " + ct + "\r\n"
	}
	head += "Content-Length: " + itoa(len(body)) + "\r\n\r\n"
	if _, err := w.Write([]byte(head)); err != nil {
		return err
	}
	_, err = w.Write(body)
	return err
}

func itoa(n int) string {
	if n == 0 {
		return "0"
	}
	neg := n < 0
	if neg {
		n = -n
	}
	var b []byte
	for n > 0 {
		b = append([]byte{byte('0' + n%10)}, b...)
		n /= 10
	}
	if neg {
		return "-" + string(b)
	}
	return string(b)
}

// ParseInt models strconv.ParseInt for base 10 / 64 bits and at most 18 characters.
func ParseInt(s string, base int, bitSize int) (int64, error) {
	if base != 10 || (bitSize != 64 && bitSize != 0) || len(s) > 18 {
		panic("models.ParseInt: only base 10, 64 bits, <= 18 characters are modelled")
	}
	if len(s) == 0 {
		return 0, errSyntax
	}
	neg := false
	if s[0] == '-' || s[0] == '+' {
		neg = s[0] == '-'
		s = s[1:]
		if len(s) == 0 {
			return 0, errSyntax
		}
	}
	n := int64(0)
	for i := 0; i < len(s); i++ {
		c := s[i]
		if c < '0' || c > '9' {
			return 0, errSyntax
		}
		n = n*10 + int64(c-'0')
	}
	if neg {
		n = -n
	}
	return n, nil
}
