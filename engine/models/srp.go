package models

// Ideal SRP-6a (github.com/tadglines/go-pkgs/crypto/srp). The big-number mathematics is
// replaced by uninterpreted collision-free functions with the relations the protocol
// relies on:
//
//   verifier v      = V[group](x)            with x = KeyDerivationFunc(salt, password)
//                                            (hc's own closure, which IS interpreted)
//   server public B = B(v, b)                b fresh
//   premaster S     = S(A, v, b)             ComputeKey fails exactly when A is all zero
//                                            (A = k*N, k >= 1 behaves like A = 0; stated)
//   session key K   = H(S)                   through the model hash
//   client proof M1 = M1(I, salt, A, B, K)   VerifyClientAuthenticator(m) <=> m == M1
//   server proof M2 = M2(A, M1, K)
//
// A client that knows x obtains the same S (SRPClientPremaster); without x nothing
// relates its values to S.

import (
	"errors"

	"github.com/tadglines/go-pkgs/crypto/srp"

	"hcverif/verif"
)

type srpInfo struct {
	group string
}

type srpSess struct {
	s                         *srp.SRP
	username, salt, verifier  []byte
	b, B                      []byte
	A, S, key                 []byte
	ProofVerified             bool
	keyOK                     bool
}

var srpInfos = map[*srp.SRP]*srpInfo{}
var srpSessions = map[*srp.ServerSession]*srpSess{}
var srpSessionList []*srpSess

func hashID(h srp.HashFunc) string {
	if mh, ok := h().(*ModelHash); ok {
		return mh.ID
	}
	return "unknown-hash"
}

func SRPNew(group string, h srp.HashFunc, kd srp.KeyDerivationFunc) (*srp.SRP, error) {
	switch group {
	case "rfc5054.1024", "rfc5054.1536", "rfc5054.2048", "rfc5054.3072", "rfc5054.4096", "rfc5054.6144", "rfc5054.8192",
		"stanford.1024", "stanford.1536", "stanford.2048", "stanford.3072", "stanford.4096", "stanford.6144", "stanford.8192":
	default:
		return nil, errors.New("Invalid Group: " + group)
	}
	s := new(srp.SRP)
	s.SaltLength = srp.DefaultSaltLength
	s.ABSize = srp.DefaultABSize
	s.HashFunc = h
	if kd == nil {
		kd = func(salt, password []byte) []byte {
			hh := s.HashFunc()
			hh.Write(salt)
			hh.Write(password)
			return hh.Sum(nil)
		}
	}
	s.KeyDerivationFunc = kd
	srpInfos[s] = &srpInfo{group: group}
	return s, nil
}

func srpGroupBytes(group string) int {
	switch group {
	case "rfc5054.3072", "stanford.3072":
		return 384
	case "rfc5054.2048", "stanford.2048":
		return 256
	case "rfc5054.1024", "stanford.1024":
		return 128
	}
	return 512
}

func SRPVerifierOf(s *srp.SRP, x []byte) []byte {
	g := srpInfos[s].group
	return verif.UF("SRP-V:"+g+":"+hashID(s.HashFunc), srpGroupBytes(g), x)
}

func SRPComputeVerifier(s *srp.SRP, password []byte) ([]byte, []byte, error) {
	salt := FreshDistinct("srp-salt", s.SaltLength)
	x := s.KeyDerivationFunc(salt, password)
	return salt, SRPVerifierOf(s, x), nil
}

func SRPNewServerSession(s *srp.SRP, username, salt, verifier []byte) *srp.ServerSession {
	ss := new(srp.ServerSession)
	ss.SRP = s
	g := srpInfos[s].group
	st := &srpSess{s: s, username: append([]byte{}, username...), salt: append([]byte{}, salt...), verifier: append([]byte{}, verifier...)}
	st.b = FreshDistinct("srp-b", 32)
	st.B = verif.UF("SRP-B:"+g, srpGroupBytes(g), st.verifier, st.b)
	srpSessions[ss] = st
	srpSessionList = append(srpSessionList, st)
	return ss
}

func SRPGetB(ss *srp.ServerSession) []byte { return srpSessions[ss].B }

func srpPremaster(st *srpSess, A, verifier []byte) []byte {
	g := srpInfos[st.s].group
	return verif.UF("SRP-S:"+g, srpGroupBytes(g), A, verifier, st.b)
}

func SRPComputeKey(ss *srp.ServerSession, A []byte) ([]byte, error) {
	st := srpSessions[ss]
	zero := true
	for _, c := range A {
		zero = verif.And(zero, c == 0)
	}
	st.A = append([]byte{}, A...)
	if zero {
		// the library keeps A as a big integer: zero has no bytes
		st.A = []byte{}
		return nil, errors.New("A%N == 0")
	}
	st.S = srpPremaster(st, A, st.verifier)
	h := st.s.HashFunc()
	h.Write(st.S)
	st.key = h.Sum(nil)
	st.keyOK = true
	return st.key, nil
}

func srpM1(st *srpSess) []byte {
	return verif.UF("SRP-M1:"+srpInfos[st.s].group+":"+hashID(st.s.HashFunc), 64, st.username, st.salt, st.A, st.B, st.key)
}

// The client proof is unforgeable: the server accepts cauth iff it is a proof an honest
// client computed (SRPClientM1, logged) and it equals the proof for the server's own
// (I, salt, A, B, K).
func SRPVerifyClientAuthenticator(ss *srp.ServerSession, cauth []byte) bool {
	st := srpSessions[ss]
	if st.A == nil {
		panic("runtime error: invalid memory address or nil pointer dereference (SRP: A not set)")
	}
	if len(cauth) != 64 {
		return false
	}
	for _, r := range m1Log {
		if verif.And(verif.Eq(r, cauth), verif.Eq(srpM1(st), cauth)) {
			st.ProofVerified = true
			return true
		}
	}
	return false
}

var m1Log [][]byte

func SRPComputeAuthenticator(ss *srp.ServerSession, cauth []byte) []byte {
	st := srpSessions[ss]
	return verif.UF("SRP-M2:"+hashID(st.s.HashFunc), 64, st.A, cauth, st.key)
}

// ---- honest-client side, used by reference controllers in harnesses (symbolic mode) ----

// SRPClientPremaster returns the premaster secret a client computes from its own x
// against the server session whose public key is B: equal to the server's S iff the
// verifier derived from x is the server's verifier.
func SRPClientPremaster(B, A, x []byte) []byte {
	for _, st := range srpSessionList {
		if verif.Eq(st.B, B) {
			return srpPremaster(st, A, SRPVerifierOf(st.s, x))
		}
	}
	return verif.Fresh("srp-client-garbage", 384)
}

func SRPClientM1(username, salt, A, B, key []byte) []byte {
	v := verif.UF("SRP-M1:rfc5054.3072:sha512", 64, username, salt, A, B, key)
	m1Log = append(m1Log, v)
	return v
}

func SRPServerM2(A, m1, key []byte) []byte {
	return verif.UF("SRP-M2:sha512", 64, A, m1, key)
}

// SRPProofVerified reports (ghost state) whether the i-th server session created on this
// path has verified a client proof.
func SRPProofVerified(i int) bool { return i < len(srpSessionList) && srpSessionList[i].ProofVerified }
func SRPSessionCount() int        { return len(srpSessionList) }

// SRPClientPublic is the client's public value A = g^a mod N as an uninterpreted function
// of a (never 0 mod N for an honest client).
func SRPClientPublic(a []byte) []byte {
	A := verif.UF("SRP-A:rfc5054.3072", 384, a)
	nz := false
	for _, c := range A {
		nz = verif.Or(nz, c != 0)
	}
	verif.Assume(nz)
	return A
}
