// Command hcsym: bounded symbolic model checking of brutella/hc with an SMT solver.
//
//	hcsym check -prop C16 -tier quick
//	hcsym replay <file>
package main

import (
	"flag"
	"fmt"
	"os"
	"runtime/pprof"

	"hcverif/sym"
)

func main() {
	if len(os.Args) < 2 {
		fmt.Fprintln(os.Stderr, "usage: hcsym check|replay|selftest ...")
		os.Exit(2)
	}
	switch os.Args[1] {
	case "check":
		fs := flag.NewFlagSet("check", flag.ExitOnError)
		var o sym.CheckOptions
		fs.StringVar(&o.Prop, "prop", "", "property id (C01..C20)")
		fs.StringVar(&o.Tier, "tier", "quick", "quick|thorough")
		fs.StringVar(&o.Repo, "repo", "/repo", "path of brutella/hc working tree")
		fs.StringVar(&o.VerifDir, "verif", "/verif", "path of the verification tree")
		fs.StringVar(&o.Only, "only", "", "run only harnesses whose name contains this")
		fs.IntVar(&o.Workers, "workers", 16, "parallel workers")
		fs.BoolVar(&o.NoNative, "no-native", false, "skip native cross-check and replay (debug)")
		fs.BoolVar(&o.Verbose, "v", false, "verbose")
		fs.StringVar(&o.Solver, "solver", "z3", "incremental solver: z3|z3-new|cvc5")
		fs.IntVar(&o.MaxPaths, "max-paths", 0, "cap on paths per harness (0 = tier default)")
		fs.Parse(os.Args[2:])
		if pf := os.Getenv("HCSYM_PROF"); pf != "" {
			f, _ := os.Create(pf)
			pprof.StartCPUProfile(f)
			code := sym.RunCheck(o)
			pprof.StopCPUProfile()
			f.Close()
			os.Exit(code)
		}
		os.Exit(sym.RunCheck(o))
	case "replay":
		if len(os.Args) < 3 {
			fmt.Fprintln(os.Stderr, "usage: hcsym replay <file>")
			os.Exit(2)
		}
		os.Exit(sym.RunReplay(os.Args[2], "/repo", "/verif"))
	default:
		fmt.Fprintln(os.Stderr, "unknown command", os.Args[1])
		os.Exit(2)
	}
}
