#!/bin/sh
# tools/runsome.sh <tier> <prop>... : like runall.sh for the listed properties
tier=$1; shift
cd /verif
for p in "$@"; do
  s=$(date +%s)
  out=$(./check $p $tier 2>&1); rc=$?
  e=$(( $(date +%s) - s ))
  echo "$p rc=$rc ${e}s $(echo "$out" | grep -c '^VIOLATION') viol $(echo "$out" | grep -c '^INCONCLUSIVE') inconcl $(echo "$out" | grep -c '^KNOWN-FINDING') known"
  echo "$out" | grep '^INCONCLUSIVE\|^VIOLATION' | head -3 | cut -c1-220
done
