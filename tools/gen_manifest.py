#!/usr/bin/env python3
"""Regenerates /verif/MANIFEST.json from tools/claims.json (one entry per claimed property)."""
import json, os
V = '/verif'
props = [json.loads(l) for l in open(f'{V}/properties.jsonl')]
claims = json.load(open(f'{V}/tools/claims.json'))
na_reasons = json.load(open(f'{V}/tools/not_applicable.json'))
checks = []
na = []
for p in props:
    pid = p['id']
    c = claims.get(pid)
    if c and os.path.isdir(f'{V}/harness/{pid}'):
        checks.append({
            "property_id": pid,
            "quick_cmd": f"./check {pid} quick",
            "thorough_cmd": f"./check {pid} thorough",
            "evidence_file": f"/verif/evidence/{pid}.json",
            "replay_cmd_template": "./check replay {path}",
            "engine": "hcsym",
            "level_claimed": {"category": c.get("category", "model_checking"), "text": c["text"], "design_ref": c.get("design_ref", "DESIGN.md §5 " + pid)},
            "level_note": c["note"],
            "technique": c.get("technique", "bounded symbolic execution of the real Go SSA; every assertion decided by an SMT solver (z3, fallback cvc5) for all input values within the stated bounds; counterexamples replayed natively"),
        })
    else:
        na.append({"property_id": pid, "reason": na_reasons.get(pid, "check not built yet (engine under construction); see DESIGN.md §5")})
m = {
 "version": 1,
 "setup_cmd": "cd /verif/engine && GOFLAGS=-mod=mod GOPROXY=off GOSUMDB=off GOTOOLCHAIN=local go build -o /verif/bin/hcsym ./cmd/hcsym",
 "hooks": {"guard": "verif", "enable": "no source hooks: harnesses are injected as go/packages overlays (symbolic run) and go test -overlay files (native replay); /repo is never modified for instrumentation",
           "baseline_off_cmd": "cd /repo && go test -json -vet=off -count=1 ./...", "source_commits": [], "add_only": True},
 "engines": [{"name": "hcsym", "path": "/verif/engine", "serves_properties": [c["property_id"] for c in checks],
              "kind_free_text": "own Go-SSA symbolic executor (golang.org/x/tools/go/ssa v0.29.0) + SMT solvers (z3 4.8.12 incremental; cvc5 1.0 / z3 5.1.0 fallback): bounded symbolic model checking of the real hc code, regenerated from /repo on every run"}],
 "checks": checks,
 "not_applicable": na,
 "notes": "Every check loads /repo's current working tree, injects the harness of the property as an overlay, executes the real functions symbolically and discharges each assertion with the solver; see DESIGN.md."
}
json.dump(m, open(f'{V}/MANIFEST.json', 'w'), indent=1)
print("claimed:", [c["property_id"] for c in checks])
