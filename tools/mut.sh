#!/bin/sh
export HCSYM_EVIDENCE_DIR=/tmp/hcsym-scratch-evidence; mkdir -p $HCSYM_EVIDENCE_DIR
# tools/mut.sh <prop> <file-in-repo> <sed-expr> : apply a one-line mutation, run the quick check, revert
prop=$1; file=$2; expr=$3
cd /repo && cp "$file" /tmp/mut.bak && sed -i "$expr" "$file"
if cmp -s "$file" /tmp/mut.bak; then echo "MUTATION DID NOT APPLY"; exit 3; fi
git diff --stat | tail -1
go build ./... 2>&1 | head -3
cd /verif && ./check $prop ${4:-quick} 2>&1 | grep -v "^  harness" | cut -c1-250 | tail -6
cp /tmp/mut.bak "/repo/$file"
