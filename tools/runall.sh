#!/bin/sh
# run every claimed check (quick by default) and print one line each
tier=${1:-quick}
cd /verif
for p in $(python3 -c "import json;print(' '.join(c['property_id'] for c in json.load(open('MANIFEST.json'))['checks']))"); do
  s=$(date +%s)
  out=$(./check $p $tier 2>&1); rc=$?
  e=$(( $(date +%s) - s ))
  echo "$p rc=$rc ${e}s $(echo "$out" | grep -c '^VIOLATION') viol $(echo "$out" | grep -c '^INCONCLUSIVE') inconcl $(echo "$out" | grep -c '^KNOWN-FINDING') known"
  echo "$out" | grep '^INCONCLUSIVE\|^VIOLATION' | head -3 | cut -c1-220
done
