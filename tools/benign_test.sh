#!/bin/sh
export HCSYM_EVIDENCE_DIR=/tmp/hcsym-scratch-evidence; mkdir -p $HCSYM_EVIDENCE_DIR
# tools/benign_test.sh <prop> <diff> : apply a behaviour-preserving change to /repo, run the quick check, revert.
# The check must exit 0 and print no VIOLATION line.
prop=$1; diff=$2
git -C /repo apply "$diff" || { echo "patch does not apply"; exit 2; }
(cd /repo && GOFLAGS=-mod=mod GOPROXY=off GOSUMDB=off GOTOOLCHAIN=local go build ./... 2>&1 | head -3)
cd /verif; out=$(./check $prop quick 2>&1); rc=$?
git -C /repo checkout -- . ; git -C /repo clean -fdq
echo "BENIGN $prop $(basename $diff) rc=$rc viol=$(echo "$out" | grep -c '^VIOLATION') inconcl=$(echo "$out" | grep -c '^INCONCLUSIVE')"
echo "$out" | grep '^VIOLATION' -A1 | head -6 | cut -c1-250
echo "$out" | grep '^INCONCLUSIVE' | sort | uniq -c | sort -rn | head -4 | cut -c1-250
