#!/bin/sh
export HCSYM_EVIDENCE_DIR=/tmp/hcsym-scratch-evidence; mkdir -p $HCSYM_EVIDENCE_DIR
# tools/benign_all.sh <diff> : apply a behaviour-preserving variant and run EVERY quick check; none may alarm.
diff=$1
git -C /repo apply "$diff" || { echo "patch does not apply"; exit 2; }
cd /verif
for p in $(python3 -c "import json;print(' '.join(c['property_id'] for c in json.load(open('MANIFEST.json'))['checks']))"); do
  out=$(./check $p quick 2>&1); rc=$?
  v=$(echo "$out" | grep -c '^VIOLATION'); i=$(echo "$out" | grep -c '^INCONCLUSIVE')
  if [ $rc -ne 0 ] || [ $v -ne 0 ] || [ $i -ne 0 ]; then echo "  $p rc=$rc viol=$v inconcl=$i"; echo "$out" | grep '^VIOLATION\|^INCONCLUSIVE' -A1 | head -4 | cut -c1-220; fi
done
git -C /repo checkout -- . ; git -C /repo clean -fdq
echo "BENIGN-ALL $(echo $diff | sed 's|.*/benign/||') done"
