#!/bin/sh
export HCSYM_EVIDENCE_DIR=/tmp/hcsym-scratch-evidence; mkdir -p $HCSYM_EVIDENCE_DIR
# tools/seeds_regress.sh [pattern] : apply every stored seed to /repo, run the quick check of the properties that
# are recorded as catching it, revert; print one line per seed. All must say CAUGHT.
cd /verif
for d in seeded/*${1}*/; do
  id=$(basename $d)
  props=$(python3 -c "import json;print(' '.join(json.load(open('$d/meta.json'))['caught_by'][:1]))")
  if [ -z "$props" ]; then echo "$id: NOT-CAUGHT (recorded as such in meta.json, see note)"; continue; fi
  git -C /repo apply /verif/${d}patch.diff || { echo "$id: PATCH DOES NOT APPLY"; continue; }
  n=0
  for p in $props; do
    s=$(date +%s)
    v=$(./check $p quick 2>&1 | grep -c '^VIOLATION')
    n=$((n+v))
  done
  e=$(( $(date +%s) - s ))
  git -C /repo checkout -- .
  if [ $n -gt 0 ]; then echo "$id: CAUGHT by $props ($n violation lines, ${e}s)"; else echo "$id: MISSED by $props (${e}s)"; fi
done
