#!/bin/sh
export HCSYM_EVIDENCE_DIR=/tmp/hcsym-scratch-evidence; mkdir -p $HCSYM_EVIDENCE_DIR
# tools/seed_store.sh <seed-id> <prop> <outdir> <worktree>  : confirm a seeded change and store it
# expects <outdir>/patch.diff, <outdir>/demo.cmd (command run inside the worktree; must FAIL with the patch, PASS without)
id=$1; prop=$2; out=$3; wt=$4
export GOFLAGS=-mod=mod GOPROXY=off GOSUMDB=off GOTOOLCHAIN=local
cd "$wt" || exit 2
git checkout -q -- . 2>/dev/null
demo=$(cat "$out/demo.cmd")
echo "== without patch: demo must pass"
sh -c "$demo" > /tmp/seed_nopatch.log 2>&1; rc0=$?
echo "rc=$rc0"
git apply "$out/patch.diff" || { echo "patch does not apply"; exit 2; }
echo "== with patch: build + existing suite (demo files moved aside)"
go build ./... || { echo BUILD FAILED; exit 2; }
untracked=$(git status --short | grep '^??' | awk '{print $2}' | grep '_test.go$')
rm -f /tmp/seed_aside.tar; [ -n "$untracked" ] && tar cf /tmp/seed_aside.tar $untracked && rm -f $untracked
go test -vet=off -count=1 ./... 2>&1 | grep -v "^DEBUG\|^INFO\|no test files" | grep -v "^ok" > /tmp/seed_suite.log; suite=$(wc -l < /tmp/seed_suite.log)
[ -f /tmp/seed_aside.tar ] && tar xf /tmp/seed_aside.tar
echo "suite non-ok lines: $suite"; cat /tmp/seed_suite.log | head -5
echo "== with patch: demo must fail"
sh -c "$demo" > /tmp/seed_patch.log 2>&1; rc1=$?
echo "rc=$rc1"
echo "== checks on /repo with the patch"
git -C /repo apply "$out/patch.diff" || { echo "patch does not apply to /repo"; exit 2; }
cd /verif; res=""
for p in $prop; do o=$(./check $p quick 2>&1); v=$(echo "$o" | grep -c '^VIOLATION'); res="$res $p:$v"; echo "$o" | grep '^VIOLATION' -A1 | head -4; done
git -C /repo checkout -- .
echo "RESULT id=$id nopatch_rc=$rc0 patch_rc=$rc1 suite_bad=$suite checks:$res"
mkdir -p /verif/seeded/$id; cp "$out/patch.diff" /verif/seeded/$id/; cp "$out"/*.go "$out"/notes.md "$out"/demo.cmd /verif/seeded/$id/ 2>/dev/null
