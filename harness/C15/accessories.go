//hcverif:pkg accessory
package accessory

import (
	"hcverif/verif"
)

// Every accessory constructor returns a usable accessory: an information service with the
// given name, services with type ids, characteristics with type ids and formats.
func Harness_C15_q_accessories_usable() {
	verif.Assert(len(zzAccCtors) >= 5, "accessory-constructors-found")
	for _, e := range zzAccCtors {
		var a *Accessory
		msg := verif.PanicValue(func() { a = e.Make() })
		verif.Assert(msg == "" && a != nil, "constructor-returns-usable-object:"+e.Name)
		if msg != "" || a == nil {
			continue
		}
		verif.Assert(a.Info != nil && a.Info.Name.GetValue() == "zz-name", "info-service-carries-the-name:"+e.Name)
		verif.Assert(len(a.Services) >= 1, "has-services:"+e.Name)
		for _, s := range a.Services {
			verif.Assert(s != nil && s.Type != "", "service-usable:"+e.Name)
			for _, c := range s.Characteristics {
				verif.Assert(c != nil && c.Type != "" && c.Format != "", "characteristic-usable:"+e.Name)
			}
		}
		p := verif.Panics(func() { a.UpdateIDs(); a.Identify() })
		verif.Assert(!p, "nopanic-update-ids:"+e.Name)
	}
	verif.Reach("end")
}
