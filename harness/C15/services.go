//hcverif:pkg service
package service

import (
	"encoding/json"
	"strings"

	"hcverif/verif"
)

func mmShortID(uuid string) string {
	head := uuid
	if i := strings.IndexByte(uuid, '-'); i >= 0 {
		head = uuid[:i]
	}
	return strings.TrimLeft(head, "0")
}

// Every service constructor returns a usable object with its declared type id and never two
// characteristics of the same type; every metadata service has a constructor with its id
// that contains at least the required characteristics.
func Harness_C15_q_services_match_metadata() {
	var meta struct {
		Services []map[string]interface{}
	}
	verif.Assert(json.Unmarshal([]byte(zzMetadataJSON), &meta) == nil, "metadata-parses")
	verif.Assert(len(meta.Services) > 30, "metadata-has-services")
	byType := map[string][]*Service{}
	for _, e := range zzSvcCtors {
		var s *Service
		msg := verif.PanicValue(func() { s = e.Make() })
		verif.Assert(msg == "" && s != nil, "constructor-returns-usable-object:"+e.Name)
		if msg != "" || s == nil {
			continue
		}
		verif.Assert(s.Type != "", "type-id-set:"+e.Name)
		if e.HasTypeConst {
			verif.Assert(s.Type == e.TypeConst, "type-id-is-the-declared-constant:"+e.Name)
		}
		seen := map[string]bool{}
		for _, c := range s.Characteristics {
			verif.Assert(c != nil && c.Type != "", "characteristic-usable:"+e.Name)
			if c == nil {
				continue
			}
			verif.Assert(!seen[c.Type], "no-two-characteristics-of-the-same-type:"+e.Name)
			seen[c.Type] = true
		}
		byType[s.Type] = append(byType[s.Type], s)
	}
	for _, m := range meta.Services {
		name, _ := m["Name"].(string)
		uuid, _ := m["UUID"].(string)
		ss := byType[mmShortID(uuid)]
		verif.Assert(len(ss) > 0, "metadata-service-has-a-constructor:"+name)
		req, _ := m["RequiredCharacteristics"].([]interface{})
		for _, s := range ss {
			for _, r := range req {
				id := mmShortID(r.(string))
				found := false
				for _, c := range s.Characteristics {
					if c.Type == id {
						found = true
					}
				}
				verif.Assert(found, "required-characteristic-present:"+name)
			}
		}
	}
	verif.Reach("end")
}
