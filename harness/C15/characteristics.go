//hcverif:pkg characteristic
package characteristic

import (
	"encoding/json"
	"strings"

	"hcverif/verif"
)

// independent restatement of the mapping from the HomeKit metadata to a characteristic
// (not the generator's code): short type id, permissions, bounds, unit, default value.

func mmShortID(uuid string) string {
	head := uuid
	if i := strings.IndexByte(uuid, '-'); i >= 0 {
		head = uuid[:i]
	}
	return strings.TrimLeft(head, "0")
}

func mmPerms(props []interface{}) []string {
	var out []string
	for _, p := range props {
		switch p {
		case "read":
			out = append(out, "pr")
		case "write":
			out = append(out, "pw")
		case "cnotify":
			out = append(out, "ev")
		}
	}
	return out
}

func mmSameStrings(a, b []string) bool {
	if len(a) != len(b) {
		return false
	}
	for i := range a {
		if a[i] != b[i] {
			return false
		}
	}
	return true
}

func mmIsInt(format string) bool {
	switch format {
	case "uint8", "uint16", "uint32", "int32", "uint64", "int":
		return true
	}
	return false
}

// mmNumEq compares a characteristic bound (int or float64) with the metadata number.
func mmNumEq(have interface{}, want float64, isInt bool) bool {
	if isInt {
		i, ok := have.(int)
		return ok && float64(i) == want
	}
	f, ok := have.(float64)
	return ok && f == want
}

// Every constructor returns a usable object whose type id is its own Type... constant; every
// metadata characteristic has a constructor with exactly its id, format, permissions, unit,
// bounds and (when readable) a default of the declared type inside the bounds.
func Harness_C15_q_characteristics_match_metadata() {
	var meta struct {
		Characteristics []map[string]interface{}
	}
	verif.Assert(json.Unmarshal([]byte(zzMetadataJSON), &meta) == nil, "metadata-parses")
	verif.Assert(len(meta.Characteristics) > 100, "metadata-has-characteristics")
	byType := map[string][]*Characteristic{}
	for _, e := range zzCharCtors {
		var c *Characteristic
		msg := verif.PanicValue(func() { c = e.Make() })
		verif.Assert(msg == "" && c != nil, "constructor-returns-usable-object:"+e.Name)
		if msg != "" || c == nil {
			continue
		}
		verif.Assert(c.Type != "", "type-id-set:"+e.Name)
		if e.HasTypeConst {
			verif.Assert(c.Type == e.TypeConst, "type-id-is-the-declared-constant:"+e.Name)
		}
		verif.Assert(c.Format != "", "format-set:"+e.Name)
		for _, p := range c.Perms {
			verif.Assert(p == "pr" || p == "pw" || p == "ev" || p == "hd" || p == "wr", "valid-permission:"+e.Name)
		}
		byType[c.Type] = append(byType[c.Type], c)
	}
	for _, m := range meta.Characteristics {
		name, _ := m["Name"].(string)
		uuid, _ := m["UUID"].(string)
		id := mmShortID(uuid)
		cs := byType[id]
		verif.Assert(len(cs) > 0, "metadata-characteristic-has-a-constructor:"+name)
		format, _ := m["Format"].(string)
		props, _ := m["Properties"].([]interface{})
		unit, _ := m["Unit"].(string)
		cons, _ := m["Constraints"].(map[string]interface{})
		isInt := mmIsInt(format)
		for _, c := range cs {
			verif.Assert(c.Format == format, "format-matches-metadata:"+name)
			verif.Assert(mmSameStrings(c.Perms, mmPerms(props)), "permissions-match-metadata:"+name)
			verif.Assert(c.Unit == unit, "unit-matches-metadata:"+name)
			for key, field := range map[string]interface{}{"MinimumValue": c.MinValue, "MaximumValue": c.MaxValue, "StepValue": c.StepValue} {
				want, has := cons[key].(float64)
				if has {
					verif.Assert(mmNumEq(field, want, isInt), "bound-matches-metadata:"+key+":"+name)
				} else {
					verif.Assert(field == nil, "no-bound-where-metadata-has-none:"+key+":"+name)
				}
			}
			readable := false
			for _, p := range c.Perms {
				if p == "pr" {
					readable = true
				}
			}
			if readable {
				switch {
				case isInt:
					v, ok := c.Value.(int)
					verif.Assert(ok, "default-has-declared-type:"+name)
					if lo, has := cons["MinimumValue"].(float64); has && ok {
						verif.Assert(float64(v) >= lo, "default-inside-bounds:"+name)
					}
					if hi, has := cons["MaximumValue"].(float64); has && ok {
						verif.Assert(float64(v) <= hi, "default-inside-bounds:"+name)
					}
				case format == "float":
					v, ok := c.Value.(float64)
					verif.Assert(ok, "default-has-declared-type:"+name)
					if lo, has := cons["MinimumValue"].(float64); has && ok {
						verif.Assert(v >= lo, "default-inside-bounds:"+name)
					}
					if hi, has := cons["MaximumValue"].(float64); has && ok {
						verif.Assert(v <= hi, "default-inside-bounds:"+name)
					}
				case format == "bool":
					_, ok := c.Value.(bool)
					verif.Assert(ok, "default-has-declared-type:"+name)
				case format == "string" || format == "tlv8" || format == "data":
					_, ok := c.Value.(string)
					verif.Assert(ok, "default-has-declared-type:"+name)
				}
			} else {
				verif.Assert(c.Value == nil, "write-only-has-no-value:"+name)
			}
		}
	}
	verif.Reach("end")
}
