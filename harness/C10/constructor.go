//hcverif:pkg .
package hc

import (
	"bytes"

	"github.com/brutella/hc/accessory"
	"github.com/brutella/hc/characteristic"
	"github.com/brutella/hc/db"
	"github.com/brutella/hc/hap"
	"github.com/brutella/hc/service"
	"github.com/brutella/hc/util"

	"hcverif/models"
	"hcverif/verif"
)

// The transport as an application builds it: hc.NewIPTransport(config, bridge, lamp1, lamp2)
// (not started: no sockets). Two connections subscribe to the brightness of lamp 1 and/or
// lamp 2 (same iid, different aid); one of the two values changes; each subscriber of THAT
// characteristic receives exactly one event that names the accessory and characteristic
// that changed and carries the new value.
func Harness_C10_q_transport_built_by_constructor() {
	models.ConcreteRandomness = true // the default device id is random; its value is irrelevant here
	dir := verif.TempDir("c10ctor")
	bridge := accessory.New(accessory.Info{Name: "bridge"}, accessory.TypeBridge)
	var lamps [2]*accessory.Accessory
	var br [2]*characteristic.Brightness
	for k := 0; k < 2; k++ {
		lamps[k] = accessory.New(accessory.Info{Name: "lamp"}, accessory.TypeLightbulb)
		svc := service.New("43")
		br[k] = characteristic.NewBrightness()
		svc.AddCharacteristic(br[k].Characteristic)
		lamps[k].AddService(svc)
	}
	// the accessory has run before: its id and key pair are in the storage (keeps them concrete)
	st, _ := util.NewFileStorage(dir)
	st.Set("uuid", []byte("AA:BB:CC:DD:EE:FF"))
	db.NewDatabaseWithStorage(st).SaveEntity(db.NewEntity("AA:BB:CC:DD:EE:FF", make([]byte, 32), make([]byte, 64)))
	t, err := NewIPTransport(Config{StoragePath: dir, Pin: "00102003"}, bridge, lamps[0], lamps[1])
	verif.Assert(err == nil && t != nil, "transport-created")
	if err != nil || t == nil {
		return
	}
	verif.Assert(lamps[0].ID != lamps[1].ID && lamps[0].ID != 0 && lamps[1].ID != 0, "accessory-ids-differ")
	ctx := t.context
	N := 2
	raw := make([]*qqConn, N)
	sub := make([][2]bool, N)
	for i := 0; i < N; i++ {
		raw[i] = &qqConn{addr: qqAddr("10.0.0." + string(rune('1'+i)) + ":5000")}
		hap.NewConnection(raw[i], ctx)
		s := ctx.GetSessionForConnection(raw[i])
		for k := 0; k < 2; k++ {
			if verif.Choice("sub"+string(rune('0'+i))+string(rune('a'+k)), 2) == 1 {
				s.Subscribe(br[k].Characteristic)
				sub[i][k] = true
			}
		}
	}
	which := verif.Choice("changed-accessory", 2)
	nv := int(verif.U8("new"))
	verif.Assume(nv <= 100 && nv != br[which].GetValue())
	br[which].SetValue(nv)
	for i := 0; i < N; i++ {
		msgs := 0
		var joined []byte
		for _, wr := range raw[i].written {
			if bytes.HasPrefix(wr, []byte("EVENT/1.0 ")) {
				msgs++
			}
			joined = append(joined, wr...)
		}
		want := 0
		if sub[i][which] {
			want = 1
		}
		verif.Assert(msgs == want, "exactly-one-event-to-exactly-the-subscribers-of-the-changed-characteristic")
		if want == 1 && msgs == 1 {
			_, doc := qqEventBody(joined)
			arr, _ := doc["characteristics"].([]interface{})
			verif.Assert(len(arr) == 1, "event-one-characteristic")
			if len(arr) == 1 {
				e, _ := arr[0].(map[string]interface{})
				aid, _ := e["aid"].(float64)
				iid, _ := e["iid"].(float64)
				val, _ := e["value"].(float64)
				verif.Assert(aid == float64(lamps[which].ID) && iid == float64(br[which].Characteristic.ID), "event-names-the-changed-accessory-and-characteristic")
				verif.Assert(val == float64(nv), "event-carries-new-value")
			}
		}
	}
	verif.Reach("end")
}
