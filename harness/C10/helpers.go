//hcverif:pkg .
package hc

import (
	"bytes"
	"encoding/json"
	"net"
	"time"
)

// helpers shared by the C10 harnesses; nothing here refers to unexported identifiers of hc

type qqAddr string

func (a qqAddr) Network() string { return "tcp" }
func (a qqAddr) String() string  { return string(a) }

type qqConn struct {
	addr    qqAddr
	written [][]byte
}

func (c *qqConn) Read(b []byte) (int, error) { return 0, nil }
func (c *qqConn) Write(b []byte) (int, error) {
	c.written = append(c.written, append([]byte{}, b...))
	return len(b), nil
}
func (c *qqConn) Close() error                       { return nil }
func (c *qqConn) LocalAddr() net.Addr                { return qqAddr("127.0.0.1:1") }
func (c *qqConn) RemoteAddr() net.Addr               { return c.addr }
func (c *qqConn) SetDeadline(t time.Time) error      { return nil }
func (c *qqConn) SetReadDeadline(t time.Time) error  { return nil }
func (c *qqConn) SetWriteDeadline(t time.Time) error { return nil }

type qqDevice struct{}

func (qqDevice) Name() string       { return "acc" }
func (qqDevice) PrivateKey() []byte { return make([]byte, 64) }
func (qqDevice) PublicKey() []byte  { return make([]byte, 32) }
func (qqDevice) Pin() string        { return "001-02-003" }

// eventBody extracts the JSON body of one EVENT message.
func qqEventBody(msg []byte) (proto string, doc map[string]interface{}) {
	i := bytes.Index(msg, []byte("\r\n\r\n"))
	if i < 0 {
		return "", nil
	}
	sp := bytes.IndexByte(msg, ' ')
	if sp > 0 {
		proto = string(msg[:sp])
	}
	json.Unmarshal(msg[i+4:], &doc)
	return
}
