//hcverif:pkg .
package hc

import (
	"bytes"

	"github.com/brutella/hc/accessory"
	"github.com/brutella/hc/characteristic"
	"github.com/brutella/hc/hap"
	"github.com/brutella/hc/service"

	"hcverif/verif"
)

// Fan-out: N connections with arbitrary subscription bits, in every map iteration order;
// one of them (or the application) changes the value of a characteristic; one connection
// may have closed before. Exactly the registered, subscribed, non-originating connections
// get exactly one EVENT carrying (aid, iid, new value); nobody gets anything when the value
// did not change.
func Harness_C10_q_fanout() {
	verif.MapOrderNondet(true)
	N := 2
	if verif.Thorough() {
		N = 3
	}
	ctx := hap.NewContextForSecuredDevice(qqDevice{})
	t := &ipTransport{context: ctx, container: accessory.NewContainer()}
	acc := accessory.New(accessory.Info{Name: "a"}, accessory.TypeLightbulb)
	svc := service.New("43")
	bright := characteristic.NewBrightness()
	on := characteristic.NewOn()
	svc.AddCharacteristic(bright.Characteristic)
	svc.AddCharacteristic(on.Characteristic)
	acc.AddService(svc)
	t.addAccessory(acc)
	// the value before the change is arbitrary within the declared range (set before anybody
	// is connected)
	old0 := int(verif.U8("old"))
	verif.Assume(old0 <= 100)
	bright.SetValue(old0)

	raw := make([]*qqConn, N)
	conns := make([]*hap.Connection, N)
	sub := make([]bool, N)
	for i := 0; i < N; i++ {
		raw[i] = &qqConn{addr: qqAddr("10.0.0." + string(rune('1'+i)) + ":5000")}
		conns[i] = hap.NewConnection(raw[i], ctx)
		s := ctx.GetSessionForConnection(raw[i])
		switch verif.Choice("sub"+string(rune('0'+i)), 3) {
		case 1:
			s.Subscribe(bright.Characteristic)
			sub[i] = true
		case 2: // subscribed then unsubscribed
			s.Subscribe(bright.Characteristic)
			s.Unsubscribe(bright.Characteristic)
		}
		s.Subscribe(on.Characteristic) // subscriptions to other characteristics are irrelevant
	}
	closed := verif.Choice("closed", N+1) // N = nobody closed
	if closed < N {
		conns[closed].Close()
	}
	// the application may answer reads through a value getter that returns something else than
	// the value being written (a device that is slow to follow): notifications are about the
	// change that happened, not about what a fresh read would say
	if verif.Choice("value-getter", 2) == 1 {
		gv := int(verif.U8("getter-value"))
		verif.Assume(gv <= 100)
		bright.OnValueRemoteGet(func() int { return gv })
	}
	old := bright.Characteristic.Value.(int)
	// the requested value is arbitrary, also beyond the declared maximum (100): the stored
	// value is the clamped one, and "unchanged" refers to the stored value
	req := int(verif.U8("new"))
	nv := req
	if nv > 100 {
		nv = 100
	}
	origin := verif.Choice("origin", N+1) // N = local application
	if origin < N {
		verif.Assume(origin != closed)
		bright.UpdateValueFromConnection(float64(req), conns[origin])
	} else {
		bright.SetValue(req)
	}
	verif.Assert(bright.Characteristic.Value.(int) == nv, "stored-value-is-the-clamped-request")
	changed := nv != old
	for i := 0; i < N; i++ {
		want := 0
		if changed && sub[i] && i != origin && i != closed {
			want = 1
		}
		// an EVENT is one or two socket writes (head, body); count messages by heads
		msgs := 0
		var joined []byte
		for _, wr := range raw[i].written {
			if bytes.HasPrefix(wr, []byte("EVENT/1.0 ")) {
				msgs++
			}
			joined = append(joined, wr...)
		}
		verif.Assert(msgs == want, "exactly-one-event-to-exactly-the-subscribed-others")
		if want == 1 && msgs == 1 {
			proto, doc := qqEventBody(joined)
			verif.Assert(proto == "EVENT/1.0", "event-protocol")
			arr, _ := doc["characteristics"].([]interface{})
			verif.Assert(len(arr) == 1, "event-one-characteristic")
			if len(arr) == 1 {
				e, _ := arr[0].(map[string]interface{})
				aid, _ := e["aid"].(float64)
				iid, _ := e["iid"].(float64)
				val, _ := e["value"].(float64)
				verif.Assert(aid == float64(acc.ID) && iid == float64(bright.Characteristic.ID), "event-ids")
				verif.Assert(val == float64(nv), "event-carries-new-value")
			}
		}
		if want == 0 {
			verif.Assert(len(raw[i].written) == 0, "no-traffic-to-others")
		}
	}
	verif.Reach("end")
}

// Several accessories (a bridge): instance ids repeat across accessories, subscriptions do
// not. Each connection is subscribed, independently, to the same-shaped characteristic of
// accessory 1 and of accessory 2; one of the two changes. Exactly the connections
// subscribed to THAT characteristic are notified, and unsubscribing from one leaves the
// subscription to the other.
func Harness_C10_q_two_accessories() {
	N := 2
	ctx := hap.NewContextForSecuredDevice(qqDevice{})
	t := &ipTransport{context: ctx, container: accessory.NewContainer()}
	var accs [2]*accessory.Accessory
	var br [2]*characteristic.Brightness
	for k := 0; k < 2; k++ {
		accs[k] = accessory.New(accessory.Info{Name: "a"}, accessory.TypeLightbulb)
		svc := service.New("43")
		br[k] = characteristic.NewBrightness()
		svc.AddCharacteristic(br[k].Characteristic)
		accs[k].AddService(svc)
		t.addAccessory(accs[k])
	}
	verif.Assert(accs[0].ID != accs[1].ID, "accessory-ids-differ")
	verif.Assert(br[0].Characteristic.ID == br[1].Characteristic.ID, "instance-ids-repeat-across-accessories")
	raw := make([]*qqConn, N)
	sub := make([][2]bool, N)
	for i := 0; i < N; i++ {
		raw[i] = &qqConn{addr: qqAddr("10.0.0." + string(rune('1'+i)) + ":5000")}
		hap.NewConnection(raw[i], ctx)
		s := ctx.GetSessionForConnection(raw[i])
		for k := 0; k < 2; k++ {
			switch verif.Choice("sub"+string(rune('0'+i))+string(rune('a'+k)), 3) {
			case 1:
				s.Subscribe(br[k].Characteristic)
				sub[i][k] = true
			case 2: // subscribed then unsubscribed (after the other one was set up)
				s.Subscribe(br[k].Characteristic)
				s.Unsubscribe(br[k].Characteristic)
			}
		}
		// order effect: unsubscribing from accessory 2 after subscribing to accessory 1
		if verif.Choice("late-unsub"+string(rune('0'+i)), 2) == 1 {
			s.Unsubscribe(br[1].Characteristic)
			sub[i][1] = false
		}
	}
	which := verif.Choice("changed-accessory", 2)
	nv := int(verif.U8("new"))
	verif.Assume(nv <= 100 && nv != br[which].GetValue())
	br[which].SetValue(nv)
	for i := 0; i < N; i++ {
		msgs := 0
		var joined []byte
		for _, wr := range raw[i].written {
			if bytes.HasPrefix(wr, []byte("EVENT/1.0 ")) {
				msgs++
			}
			joined = append(joined, wr...)
		}
		want := 0
		if sub[i][which] {
			want = 1
		}
		verif.Assert(msgs == want, "event-only-for-the-subscribed-accessory")
		if want == 1 && msgs == 1 {
			_, doc := qqEventBody(joined)
			arr, _ := doc["characteristics"].([]interface{})
			if len(arr) == 1 {
				e, _ := arr[0].(map[string]interface{})
				aid, _ := e["aid"].(float64)
				verif.Assert(aid == float64(accs[which].ID), "event-names-the-changed-accessory")
			}
		}
	}
	verif.Reach("end")
}
