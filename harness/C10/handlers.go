//hcverif:pkg hap/http
package http

import "hcverif/verif"

func Harness_C10_q_put_ev() {
	k := 1
	if verif.Thorough() {
		k = 2
	}
	zzPutScenario("C10", k)
}
