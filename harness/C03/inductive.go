//hcverif:pkg hap/pair
package pair

import (
	"crypto/ed25519"

	"github.com/brutella/hc/crypto/chacha20poly1305"
	"github.com/brutella/hc/crypto/curve25519"
	"github.com/brutella/hc/crypto/hkdf"
	"github.com/brutella/hc/db"
	"github.com/brutella/hc/hap"

	"hcverif/verif"
)

// Inductive step over VerifyServerController.Handle from an ARBITRARY controller state:
// arbitrary step byte; the session keys are (a) what a start request with the adversary's
// own key leaves behind (the adversary knows the session key), (b) all zero (residue of a
// rejected start request), or (c) keys agreed with somebody else (unknown to the
// adversary). One finish message of an adversary that holds no paired long-term key is
// never answered with "verified" (state 4 without error code), whatever name and signature
// it carries - so no history of messages, of any length, verifies it.
func Harness_C03_q_inductive_step() {
	dev := ppNewDevice()
	database := &ppDB{}
	database.SaveEntity(db.NewEntity(dev.name, dev.pub, dev.priv))
	ctrlPub, ctrlPriv, _ := ed25519.GenerateKey(nil)
	database.SaveEntity(db.NewEntity("ctrl-1", ctrlPub, nil))
	ctx := hap.NewContextForSecuredDevice(dev)
	v := NewVerifyServerController(database, ctx)
	_, attLTPriv, _ := ed25519.GenerateKey(nil)
	attSK := curve25519.GeneratePrivateKey()
	attPK := curve25519.PublicKey(attSK)

	v.step = VerifyStepType(verif.U8("pre-step"))
	var known [32]byte // the session key as far as the adversary can know it
	knows := false
	switch verif.Choice("session-state", 3) {
	case 0: // after a start request with the adversary's key
		v.session.GenerateSharedKeyWithOtherPublicKey(attPK)
		v.session.SetupEncryptionKey([]byte("Pair-Verify-Encrypt-Salt"), []byte("Pair-Verify-Encrypt-Info"))
		shared := curve25519.SharedSecret(attSK, v.session.PublicKey)
		known, _ = hkdf.Sha512(shared[:], []byte("Pair-Verify-Encrypt-Salt"), []byte("Pair-Verify-Encrypt-Info"))
		knows = true
		verif.Fact("session", "adversary-key")
	case 1: // zero-valued session (fresh, or after a rejected start request)
		knows = true
		verif.Fact("session", "zero")
	default: // agreed with an honest party
		other := curve25519.PublicKey(curve25519.GeneratePrivateKey())
		v.session.GenerateSharedKeyWithOtherPublicKey(other)
		v.session.SetupEncryptionKey([]byte("Pair-Verify-Encrypt-Salt"), []byte("Pair-Verify-Encrypt-Info"))
		verif.Fact("session", "honest-party")
	}
	// a finish signature of ctrl-1 from a different exchange (other ephemeral keys)
	staleC := curve25519.PublicKey(curve25519.GeneratePrivateKey())
	staleA := curve25519.PublicKey(curve25519.GeneratePrivateKey())
	staleSig := ed25519.Sign(ctrlPriv, append(append(append([]byte{}, staleC[:]...), []byte("ctrl-1")...), staleA[:]...))

	key := known
	if !knows {
		copy(key[:], verif.Bytes("guessed-key", 32))
		verif.Assume(!verif.Eq(key[:], v.session.EncryptionKey[:]))
	}
	name := []string{"ctrl-1", "nobody", dev.name}[verif.Choice("name", 3)]
	material := append(append(append([]byte{}, v.session.OtherPublicKey[:]...), []byte(name)...), v.session.PublicKey[:]...)
	var sig []byte
	switch verif.Choice("sig", 3) {
	case 0:
		sig = verif.Bytes("garbage-sig", 64)
	case 1:
		sig = ed25519.Sign(attLTPriv, material)
	default:
		sig = staleSig
	}
	sub := ppTLV(TagUsername, name, TagSignature, sig).BytesBuffer().Bytes()
	nonce := []string{"PV-Msg03", "PV-Msg02"}[verif.Choice("nonce", 2)]
	ct, mac, _ := chacha20poly1305.EncryptAndSeal(key[:], []byte(nonce), sub, nil)
	var out interface {
		GetByte(byte) byte
	}
	var err error
	p := verif.Panics(func() {
		o, e := v.Handle(ppTLV(TagSequence, byte(3), TagEncryptedData, append(ct, mac[:]...)))
		err = e
		if o != nil {
			out = o
		}
	})
	verif.Assert(!p, "nopanic-handle")
	verified := !p && err == nil && out != nil && out.GetByte(TagSequence) == 4 && out.GetByte(TagErrCode) == 0
	verif.Assert(!verified, "adversary-finish-is-never-answered-as-verified")
	verif.Assert(v.step == VerifyStepWaiting, "inv:finish-always-returns-to-waiting")
	verif.Reach("end")
}
