//hcverif:pkg hap/endpoint
package endpoint

import (
	"crypto/ed25519"

	"github.com/brutella/hc/crypto/chacha20poly1305"
	"github.com/brutella/hc/crypto/curve25519"
	"github.com/brutella/hc/crypto/hkdf"
	"github.com/brutella/hc/db"
	"github.com/brutella/hc/hap"
	"github.com/brutella/hc/hap/pair"

	"hcverif/verif"
)

// An adversary without any stored long-term key sends k pair-verify messages on one
// connection. The database holds the accessory's own entity and one honest controller
// ("ctrl-1"). The adversary owns an X25519 and an Ed25519 key pair, sees everything the
// accessory sends (and can decrypt the M2 sub-TLV when it knows the session key), and holds
// an honest signature of ctrl-1 from an earlier exchange (stale ephemeral keys). After
// every message the connection is still unverified (no active and no pending
// cryptographer) and a finish message is answered with an error.
func c03Attacker(k int) {
	w := eeNewWorld()
	ctrlPub, ctrlPriv, _ := ed25519.GenerateKey(nil)
	w.db.SaveEntity(db.NewEntity("ctrl-1", ctrlPub, nil))
	_, sess := w.connect("10.0.0.9:6000")
	remote := "10.0.0.9:6000"
	attLTPub, attLTPriv, _ := ed25519.GenerateKey(nil)
	_ = attLTPub
	attSK := curve25519.GeneratePrivateKey()
	attPK := curve25519.PublicKey(attSK)
	// An honest exchange of ctrl-1 on another connection, observed by the adversary: its
	// finish signature is over that exchange's ephemeral keys ("stale" for the adversary).
	_, honestSess := w.connect("10.0.0.2:5000")
	hSK := curve25519.GeneratePrivateKey()
	hPK := curve25519.PublicKey(hSK)
	hrec, _ := eePost(w.verify, "/pair-verify", "10.0.0.2:5000", eeTLV(pair.TagSequence, byte(1), pair.TagPublicKey, hPK[:]))
	staleA := hrec.tlv().GetBytes(pair.TagPublicKey)
	verif.Assume(len(staleA) == 32)
	staleSig := ed25519.Sign(ctrlPriv, append(append(append([]byte{}, hPK[:]...), []byte("ctrl-1")...), staleA...))
	{
		var other [32]byte
		copy(other[:], staleA)
		shared := curve25519.SharedSecret(hSK, other)
		hk, _ := hkdf.Sha512(shared[:], []byte("Pair-Verify-Encrypt-Salt"), []byte("Pair-Verify-Encrypt-Info"))
		ct, mac, _ := chacha20poly1305.EncryptAndSeal(hk[:], []byte("PV-Msg03"), eeTLV(pair.TagUsername, "ctrl-1", pair.TagSignature, staleSig), nil)
		frec, _ := eePost(w.verify, "/pair-verify", "10.0.0.2:5000", eeTLV(pair.TagSequence, byte(3), pair.TagEncryptedData, append(ct, mac[:]...)))
		verif.Assert(frec.status == 200 && frec.tlv() != nil && frec.tlv().GetByte(pair.TagErrCode) == 0, "honest-controller-verifies")
		verif.Assert(honestSess.Decrypter() != nil, "honest-connection-becomes-verified")
	}

	var accEph []byte    // accessory ephemeral key from the last accepted start
	var lastA []byte     // what we sent as our ephemeral key in that start
	var m2enc []byte     // the accessory's encrypted M2 sub-TLV
	var sessKey [32]byte // session key, when we can compute it
	haveKey := false
	hist := ""
	for step := 0; step < k; step++ {
		id := string(rune('0' + step))
		var body []byte
		isFinish := false
		switch verif.Choice("msg"+id, 3) {
		case 0: // start
			var A []byte
			arbitraryAIsReflection := false
			aWasKnown := accEph != nil
			switch verif.Choice("A"+id, 4) {
			case 0:
				hist += "start(own-key);"
				A = attPK[:]
			case 1:
				hist += "start(reflect-accessory-ephemeral);"
				if accEph == nil {
					A = verif.Bytes("A-any"+id, 32)
				} else {
					A = accEph
					arbitraryAIsReflection = true
				}
			case 2:
				hist += "start(arbitrary);"
				A = verif.Bytes("A-arb"+id, 32)
			default:
				hist += "start(wrong-length);"
				A = verif.Bytes("A-short"+id, 31)
			}
			body = eeTLV(pair.TagSequence, byte(1), pair.TagPublicKey, A)
			rec, _ := eePost(w.verify, "/pair-verify", remote, body)
			verif.Fact("history", hist)
			if t := rec.tlv(); t != nil && rec.status == 200 && t.GetByte(pair.TagSequence) == 2 {
				accEph = t.GetBytes(pair.TagPublicKey)
				m2enc = t.GetBytes(pair.TagEncryptedData)
				lastA = A
				haveKey = false
				// freshness (A6): the accessory's ephemeral key of this exchange differs from the
				// one of the earlier exchange in which ctrl-1's stale signature was made
				if len(accEph) == 32 {
					if len(A) == 32 && !arbitraryAIsReflection {
						// an arbitrary key chosen before the accessory's key was seen is not that key
						verif.Assume(verif.Or(aWasKnown, !verif.Eq(A, accEph)))
					}
				}
				if len(A) == 32 && verif.Eq(A, attPK[:]) && len(accEph) == 32 {
					var other [32]byte
					copy(other[:], accEph)
					shared := curve25519.SharedSecret(attSK, other)
					sessKey, _ = hkdf.Sha512(shared[:], []byte("Pair-Verify-Encrypt-Salt"), []byte("Pair-Verify-Encrypt-Info"))
					haveKey = true
				}
			}
			c03CheckUnverified(sess)
			continue
		case 1: // finish
			isFinish = true
			var enc []byte
			switch verif.Choice("enc"+id, 4) {
			case 0:
				n := []int{0, 1, 15}[verif.Choice("short"+id, 3)]
				hist += "finish(short);"
				enc = verif.Bytes("short-enc"+id, n)
			case 1:
				hist += "finish(arbitrary);"
				enc = verif.Bytes("arb-enc"+id, 16+8)
			case 2:
				hist += "finish(replay-accessory-M2-ciphertext);"
				if m2enc == nil {
					enc = verif.Bytes("arb2-enc"+id, 16+8)
				} else {
					enc = m2enc
				}
			default:
				key := sessKey
				if !haveKey {
					hist += "finish(sealed:guessed-key"
					copy(key[:], verif.Bytes("guessed-key"+id, 32))
					// the adversary cannot guess a session key it cannot derive
					if ctlr := sess.PairVerifyHandler(); ctlr != nil {
						sk := ctlr.SharedKey()
						real, _ := hkdf.Sha512(sk[:], []byte("Pair-Verify-Encrypt-Salt"), []byte("Pair-Verify-Encrypt-Info"))
						verif.Assume(!verif.Eq(key[:], real[:]))
					}
				} else {
					hist += "finish(sealed:session-key"
				}
				names := []string{"ctrl-1", "nobody", w.dev.name}
				name := names[verif.Choice("name"+id, len(names))]
				hist += ",name=" + name
				eph := accEph
				if eph == nil {
					eph = make([]byte, 32)
				}
				material := append(append(append([]byte{}, lastA...), []byte(name)...), eph...)
				var sig []byte
				switch verif.Choice("sig"+id, 4) {
				case 0:
					hist += ",garbage-signature);"
					sig = verif.Bytes("garbage-sig"+id, 64)
				case 1:
					hist += ",signed-with-own-key);"
					sig = ed25519.Sign(attLTPriv, material)
				case 2:
					hist += ",stale-honest-signature);"
					sig = staleSig
				default:
					hist += ",accessory-M2-signature);"
					sig = make([]byte, 64)
					if haveKey && len(m2enc) >= 16 {
						var mac [16]byte
						copy(mac[:], m2enc[len(m2enc)-16:])
						if pt, err := chacha20poly1305.DecryptAndVerify(key[:], []byte("PV-Msg02"), m2enc[:len(m2enc)-16], mac, nil); err == nil {
							if sub := c03ParseSub(pt); sub != nil {
								sig = sub
							}
						}
					}
				}
				sub := eeTLV(pair.TagUsername, name, pair.TagSignature, sig)
				nonce := []string{"PV-Msg03", "PV-Msg02"}[verif.Choice("nonce"+id, 2)]
				ct, mac, _ := chacha20poly1305.EncryptAndSeal(key[:], []byte(nonce), sub, nil)
				enc = append(ct, mac[:]...)
			}
			body = eeTLV(pair.TagSequence, byte(3), pair.TagEncryptedData, enc)
		default:
			hist += "junk;"
			body = eeTLV(pair.TagSequence, verif.U8("junk-state"+id), pair.TagPairingMethod, verif.U8("junk-method"+id))
		}
		rec, _ := eePost(w.verify, "/pair-verify", remote, body)
		verif.Fact("history", hist)
		c03CheckUnverified(sess)
		if isFinish {
			t := rec.tlv()
			isErr := rec.status >= 400 || (t != nil && t.GetByte(pair.TagErrCode) != 0)
			verif.Assert(isErr, "failed-finish-answered-with-an-error")
		}
	}
	verif.Reach("end")
}

func c03ParseSub(pt []byte) []byte {
	// signature item (tag 0x0A) of the accessory's M2 sub-TLV
	i := 0
	for i+2 <= len(pt) {
		tag, n := pt[i], int(pt[i+1])
		if i+2+n > len(pt) {
			return nil
		}
		if tag == 0x0A && n == 64 {
			return pt[i+2 : i+2+n]
		}
		i += 2 + n
	}
	return nil
}

func c03CheckUnverified(sess hap.Session) {
	verif.Assert(sess.Encrypter() == nil, "connection-stays-unverified")
	verif.Assert(sess.Decrypter() == nil, "no-pending-cryptographer")
}

func Harness_C03_q_attacker_2() { c03Attacker(2) }
func Harness_C03_t_attacker_3() { c03Attacker(3) }

// The paired controller itself: start(A1), optionally a second start(A2) with another
// ephemeral key before any finish, then a correctly sealed and signed finish built from the
// material of either start. If the connection becomes verified, the finish was the one over
// the ephemeral keys of the LAST start the accessory accepted (a signature over an earlier
// start's keys is stale for the exchange the accessory says it is running).
func Harness_C03_q_finish_binds_last_accepted_start() {
	w := eeNewWorld()
	ctrlPub, ctrlPriv, _ := ed25519.GenerateKey(nil)
	w.db.SaveEntity(db.NewEntity("ctrl-1", ctrlPub, nil))
	_, sess := w.connect("10.0.0.2:5000")
	remote := "10.0.0.2:5000"
	type exch struct {
		sk, pk [32]byte
		accEph []byte
		ok     bool
	}
	start := func() exch {
		var e exch
		e.sk = curve25519.GeneratePrivateKey()
		e.pk = curve25519.PublicKey(e.sk)
		rec, _ := eePost(w.verify, "/pair-verify", remote, eeTLV(pair.TagSequence, byte(1), pair.TagPublicKey, e.pk[:]))
		if t := rec.tlv(); t != nil && rec.status == 200 && t.GetByte(pair.TagSequence) == 2 && t.GetByte(pair.TagErrCode) == 0 {
			e.accEph = t.GetBytes(pair.TagPublicKey)
			e.ok = len(e.accEph) == 32
		}
		return e
	}
	e1 := start()
	verif.Assert(e1.ok, "first-start-accepted")
	if !e1.ok {
		return
	}
	second := verif.Choice("second-start", 2) == 1
	var e2 exch
	if second {
		e2 = start()
	}
	current, useFirst := e1, verif.Choice("finish-over", 2) == 0
	if second && e2.ok {
		current = e2
	}
	e := e1
	if !useFirst {
		if !second || !e2.ok {
			verif.Reach("end")
			return
		}
		e = e2
	}
	verif.Fact("second-start", map[bool]string{false: "no", true: "yes"}[second])
	verif.Fact("second-start-accepted", map[bool]string{false: "no", true: "yes"}[second && e2.ok])
	verif.Fact("finish-over", map[bool]string{true: "first start", false: "second start"}[useFirst])
	var other [32]byte
	copy(other[:], e.accEph)
	shared := curve25519.SharedSecret(e.sk, other)
	key, _ := hkdf.Sha512(shared[:], []byte("Pair-Verify-Encrypt-Salt"), []byte("Pair-Verify-Encrypt-Info"))
	sig := ed25519.Sign(ctrlPriv, append(append(append([]byte{}, e.pk[:]...), []byte("ctrl-1")...), e.accEph...))
	ct, mac, _ := chacha20poly1305.EncryptAndSeal(key[:], []byte("PV-Msg03"), eeTLV(pair.TagUsername, "ctrl-1", pair.TagSignature, sig), nil)
	eePost(w.verify, "/pair-verify", remote, eeTLV(pair.TagSequence, byte(3), pair.TagEncryptedData, append(ct, mac[:]...)))
	verified := sess.Decrypter() != nil
	if verified {
		verif.Assert(e.pk == current.pk, "verified-only-by-signature-over-the-last-accepted-start")
	}
	if !second {
		verif.Assert(verified, "honest-single-exchange-verifies")
	}
	verif.Reach("end")
}

// Another PAIRED controller ("Zoe", who knows her own long-term key) claims a name that is
// not hers - another pairing's name exactly, or that name in different letter case, or a
// name nobody has - and signs with her own key: the connection is verified only when the
// claimed name is her own.
func Harness_C03_q_paired_controller_claims_another_name() {
	w := eeNewWorld()
	alicePub, _, _ := ed25519.GenerateKey(nil)
	zoePub, zoePriv, _ := ed25519.GenerateKey(nil)
	w.db.SaveEntity(db.NewEntity("Alice", alicePub, nil))
	w.db.SaveEntity(db.NewEntity("Zoe", zoePub, nil))
	_, sess := w.connect("10.0.0.2:5000")
	remote := "10.0.0.2:5000"
	sk := curve25519.GeneratePrivateKey()
	pk := curve25519.PublicKey(sk)
	rec, _ := eePost(w.verify, "/pair-verify", remote, eeTLV(pair.TagSequence, byte(1), pair.TagPublicKey, pk[:]))
	t := rec.tlv()
	if t == nil || len(t.GetBytes(pair.TagPublicKey)) != 32 {
		return
	}
	accEph := t.GetBytes(pair.TagPublicKey)
	var other [32]byte
	copy(other[:], accEph)
	shared := curve25519.SharedSecret(sk, other)
	key, _ := hkdf.Sha512(shared[:], []byte("Pair-Verify-Encrypt-Salt"), []byte("Pair-Verify-Encrypt-Info"))
	names := []string{"Zoe", "Alice", "alice", "ALICE", "zoe", "Bob"}
	claimed := names[verif.Choice("claimed-name", len(names))]
	verif.Fact("claimed-name", claimed)
	sig := ed25519.Sign(zoePriv, append(append(append([]byte{}, pk[:]...), []byte(claimed)...), accEph...))
	ct, mac, _ := chacha20poly1305.EncryptAndSeal(key[:], []byte("PV-Msg03"), eeTLV(pair.TagUsername, claimed, pair.TagSignature, sig), nil)
	rec, _ = eePost(w.verify, "/pair-verify", remote, eeTLV(pair.TagSequence, byte(3), pair.TagEncryptedData, append(ct, mac[:]...)))
	verified := sess.Decrypter() != nil
	if claimed == "Zoe" {
		verif.Assert(verified, "own-name-and-own-key-verify")
	} else {
		verif.Assert(!verified, "a-key-stored-for-another-name-does-not-verify-the-claimed-name")
		t2 := rec.tlv()
		verif.Assert(rec.status >= 400 || (t2 != nil && t2.GetByte(pair.TagErrCode) != 0), "failed-finish-answered-with-an-error")
	}
	verif.Reach("end")
}
