//hcverif:pkg hap/http
package http

import (
	"bytes"
	"encoding/json"
	"net/url"

	"github.com/brutella/hc/crypto/chacha20poly1305"
	"github.com/brutella/hc/crypto/curve25519"
	"github.com/brutella/hc/crypto/hkdf"
	"github.com/brutella/hc/db"
	"github.com/brutella/hc/hap"
	"github.com/brutella/hc/hap/pair"
	"github.com/brutella/hc/util"

	"hcverif/verif"
)

// One request of any method to any registered protected handler on a connection whose
// session has no cryptographer (never verified): nothing is disclosed and nothing changes.
// A second, verified connection exists at the same time; its verification must not carry
// over. Handlers keep no other per-connection authorisation state, so this one step
// covers request histories of any length (how a cryptographer gets installed is C03).
func Harness_C01_q_unverified_request() {
	w := newWorld()
	w.connect("10.0.0.2:5000", true) // a legitimate controller on another connection
	_, sess := w.connect("10.0.0.9:6000", false)
	verif.Assert(sess.Encrypter() == nil && sess.Decrypter() == nil, "attacker-session-unverified")
	remote := "10.0.0.9:6000"
	// the accessory's own entity and one paired controller are stored, as on a real device
	w.db.SaveEntity(db.NewEntity(w.dev.name, w.dev.pub, w.dev.priv))
	w.db.SaveEntity(dbEntity("controller-1"))
	// Prelude: partial / failed / forged pairing exchanges by the unpaired peer on its own
	// connection. None of them may turn the connection into a verified one.
	c01Prelude(w, remote)
	sess.Decrypter() // what the next read on the connection would do
	verif.Assert(sess.Encrypter() == nil, "forged-or-partial-exchanges-do-not-verify")

	oldOn := w.on.Characteristic.Value
	oldBright := w.bright.Characteristic.Value
	remoteUpdates := 0
	w.bright.OnValueRemoteUpdate(func(int) { remoteUpdates++ })
	w.on.OnValueRemoteUpdate(func(bool) { remoteUpdates++ })
	saves0, deletes0 := w.db.saves, w.db.deletes

	endpoints := []string{"/accessories", "/characteristics", "/pairings"}
	ep := endpoints[verif.Choice("endpoint", len(endpoints))]
	methods := []string{"GET", "PUT", "POST", "DELETE"}
	method := methods[verif.Choice("method", len(methods))]
	verif.Fact("endpoint", ep)
	verif.Fact("method", method)
	h := verif.MuxHandler(w.srv.Mux, ep)
	verif.Assert(h != nil, "handler-registered")
	if h == nil {
		return
	}
	var body []byte
	form := url.Values{}
	switch ep {
	case "/characteristics":
		form.Set("id", "1."+itoa(w.bright.Characteristic.ID)+",1."+itoa(w.name.Characteristic.ID))
		ev := []interface{}{nil, true, false}[verif.Choice("ev", 3)]
		ent := map[string]interface{}{"aid": w.acc.ID, "iid": w.bright.Characteristic.ID, "value": float64(verif.U8("newval"))}
		if ev != nil {
			ent["ev"] = ev
		}
		body, _ = json.Marshal(map[string]interface{}{"characteristics": []interface{}{ent}})
	case "/pairings":
		c := util.NewTLV8Container()
		c.SetByte(pair.TagPairingMethod, verif.U8("pairing-method"))
		c.SetString(pair.TagUsername, []string{"evil", "controller-1"}[verif.Choice("victim", 2)])
		c.SetBytes(pair.TagPublicKey, verif.Bytes("attacker-ltpk", 32))
		c.SetByte(pair.TagPermission, verif.U8("perm"))
		body = c.BytesBuffer().Bytes()
	}
	rec := newRecorder()
	p := verif.Panics(func() { h.ServeHTTP(rec, zzRequest(method, ep, remote, form, body)) })
	verif.Assert(!p, "nopanic-unverified-request")

	// nothing changed
	verif.Assert(w.on.Characteristic.Value == oldOn && w.bright.Characteristic.Value == oldBright, "no-value-change")
	verif.Assert(remoteUpdates == 0, "no-application-callback")
	verif.Assert(!sess.IsSubscribedTo(w.bright.Characteristic), "no-subscription")
	verif.Assert(w.db.saves == saves0 && w.db.deletes == deletes0, "no-pairing-change")
	verif.Assert(len(w.emitted) == 0, "no-pairing-event")
	// nothing disclosed: no attribute database, no characteristic values
	for _, d := range rec.docs() {
		if m, ok := d.(map[string]interface{}); ok {
			_, a := m["accessories"]
			_, c := m["characteristics"]
			verif.Assert(!a && !c, "no-disclosure")
		}
	}
	verif.Assert(rec.status >= 400, "refused-with-error-status")
	verif.Reach("end")
}

// c01Prelude performs one of several partial / failed / forged pairing exchanges.
func c01Prelude(w *zzWorld, remote string) {
	post := func(path string, body []byte) util.Container {
		h := verif.MuxHandler(w.srv.Mux, path)
		rec := newRecorder()
		verif.Panics(func() { h.ServeHTTP(rec, zzRequest("POST", path, remote, nil, body)) })
		c, err := util.NewTLV8ContainerFromReader(bytes.NewBuffer(append([]byte{}, rec.body...)))
		if err != nil || rec.status != 200 {
			return nil
		}
		return c
	}
	tlv := func(items ...interface{}) []byte {
		c := util.NewTLV8Container()
		for i := 0; i+1 < len(items); i += 2 {
			switch v := items[i+1].(type) {
			case byte:
				c.SetByte(uint8(items[i].(int)), v)
			case []byte:
				c.SetBytes(uint8(items[i].(int)), v)
			case string:
				c.SetString(uint8(items[i].(int)), v)
			}
		}
		return c.BytesBuffer().Bytes()
	}
	kind := verif.Choice("prelude", 5)
	verif.Fact("prelude", []string{"none", "pair-setup start", "pair-setup start+verify(A=0)", "pair-verify start", "pair-verify start+forged finish"}[kind])
	switch kind {
	case 1, 2:
		post("/pair-setup", tlv(pair.TagPairingMethod, byte(0), pair.TagSequence, byte(1)))
		if kind == 2 {
			post("/pair-setup", tlv(pair.TagSequence, byte(3), pair.TagPublicKey, make([]byte, 384), pair.TagProof, verif.Bytes("proof", 64)))
		}
	case 3, 4:
		sk := curve25519.GeneratePrivateKey()
		pk := curve25519.PublicKey(sk)
		m2 := post("/pair-verify", tlv(pair.TagSequence, byte(1), pair.TagPublicKey, pk[:]))
		if kind == 4 && m2 != nil && len(m2.GetBytes(pair.TagPublicKey)) == 32 {
			var accEph [32]byte
			copy(accEph[:], m2.GetBytes(pair.TagPublicKey))
			shared := curve25519.SharedSecret(sk, accEph)
			key, _ := hkdf.Sha512(shared[:], []byte("Pair-Verify-Encrypt-Salt"), []byte("Pair-Verify-Encrypt-Info"))
			name := []string{w.dev.name, "controller-1", "nobody"}[verif.Choice("forged-name", 3)]
			sub := tlv(pair.TagUsername, name, pair.TagSignature, verif.Bytes("forged-signature", 64))
			ct, mac, _ := chacha20poly1305.EncryptAndSeal(key[:], []byte("PV-Msg03"), sub, nil)
			post("/pair-verify", tlv(pair.TagSequence, byte(3), pair.TagEncryptedData, append(ct, mac[:]...)))
		}
	}
}

// A request whose remote address has NO session in the context: the peer never went through
// hap.NewConnection's bookkeeping, or the session was removed by the (late) Close of an
// earlier connection from the same address and port. It is refused like any unverified one.
func Harness_C01_q_request_without_session() {
	w := newWorld()
	w.connect("10.0.0.2:5000", true) // a verified controller elsewhere
	remote := "10.0.0.9:6000"
	switch verif.Choice("why-no-session", 2) {
	case 0:
		verif.Fact("session", "never created")
	case 1:
		verif.Fact("session", "removed by the Close of an earlier connection from the same address")
		c := &zzConn{addr: zzAddr(remote)}
		hc := hap.NewConnection(c, w.ctx)
		hc.Close()
	}
	w.db.SaveEntity(db.NewEntity(w.dev.name, w.dev.pub, w.dev.priv))
	w.db.SaveEntity(dbEntity("controller-1"))
	oldOn, oldBright := w.on.Characteristic.Value, w.bright.Characteristic.Value
	saves0, deletes0 := w.db.saves, w.db.deletes
	endpoints := []string{"/accessories", "/characteristics", "/pairings"}
	ep := endpoints[verif.Choice("endpoint", len(endpoints))]
	method := []string{"GET", "PUT", "POST"}[verif.Choice("method", 3)]
	verif.Fact("endpoint", ep)
	verif.Fact("method", method)
	h := verif.MuxHandler(w.srv.Mux, ep)
	if h == nil {
		return
	}
	var body []byte
	form := url.Values{}
	switch ep {
	case "/characteristics":
		form.Set("id", "1."+itoa(w.bright.Characteristic.ID))
		body, _ = json.Marshal(map[string]interface{}{"characteristics": []interface{}{
			map[string]interface{}{"aid": w.acc.ID, "iid": w.bright.Characteristic.ID, "value": float64(verif.U8("newval")), "ev": true}}})
	case "/pairings":
		c := util.NewTLV8Container()
		c.SetByte(pair.TagPairingMethod, verif.U8("pairing-method"))
		c.SetString(pair.TagUsername, []string{"evil", "controller-1"}[verif.Choice("victim", 2)])
		c.SetBytes(pair.TagPublicKey, verif.Bytes("attacker-ltpk", 32))
		c.SetByte(pair.TagPermission, verif.U8("perm"))
		body = c.BytesBuffer().Bytes()
	}
	rec := newRecorder()
	p := verif.Panics(func() { h.ServeHTTP(rec, zzRequest(method, ep, remote, form, body)) })
	verif.Assert(!p, "nopanic-request-without-session")
	verif.Assert(w.on.Characteristic.Value == oldOn && w.bright.Characteristic.Value == oldBright, "no-value-change")
	verif.Assert(w.db.saves == saves0 && w.db.deletes == deletes0 && len(w.emitted) == 0, "no-pairing-change")
	for _, d := range rec.docs() {
		if m, ok := d.(map[string]interface{}); ok {
			_, a := m["accessories"]
			_, c := m["characteristics"]
			verif.Assert(!a && !c, "no-disclosure")
		}
	}
	verif.Assert(rec.status >= 400, "refused-with-error-status")
	verif.Reach("end")
}

// Vacuity twin: the same requests on the verified connection do take effect.
func Harness_C01_q_verified_twin() {
	w := newWorld()
	w.connect("10.0.0.2:5000", true)
	remote := "10.0.0.2:5000"
	rec := newRecorder()
	verif.MuxHandler(w.srv.Mux, "/accessories").ServeHTTP(rec, zzRequest("GET", "/accessories", remote, nil, nil))
	docs := rec.docs()
	verif.Assert(len(docs) == 1, "verified-gets-one-document")
	if len(docs) == 1 {
		_, ok := docs[0].(map[string]interface{})["accessories"]
		verif.Assert(ok, "verified-gets-accessories")
	}
	nv := verif.U8("newval")
	verif.Assume(nv <= 100 && int(nv) != w.bright.GetValue())
	body, _ := json.Marshal(map[string]interface{}{"characteristics": []interface{}{
		map[string]interface{}{"aid": w.acc.ID, "iid": w.bright.Characteristic.ID, "value": float64(nv), "ev": true}}})
	rec = newRecorder()
	verif.MuxHandler(w.srv.Mux, "/characteristics").ServeHTTP(rec, zzRequest("PUT", "/characteristics", remote, nil, body))
	verif.Assert(w.bright.GetValue() == int(nv), "verified-write-takes-effect")
	verif.Assert(rec.status == 204, "verified-write-no-content")
	verif.Reach("end")
}

// Registration check over the SSA of the whole library: every call site of
// ServeMux.Handle / HandleFunc with a protected pattern passes a handler produced by
// Server.Authenticate (this also sees /resource, which is registered in ip_transport.go
// inside Start, a function the engine cannot execute).
func Harness_C01_q_registrations_wrapped() {
	sites := verif.HandleCallSites()
	verif.Assert(len(sites) >= 6, "inv:call-sites-found")
	protected := map[string]bool{"/accessories": true, "/characteristics": true, "/pairings": true, "/resource": true}
	seen := 0
	for _, s := range sites {
		if protected[s.Pattern] {
			seen++
			verif.Fact("site", s.Pattern+"@"+s.Func)
			// Alarm only when the site certainly bypasses Authenticate (the handler argument is an
			// endpoint constructor or a plain function). A registration through a helper the scan
			// cannot see through is undecided here; the behavioural harness above decides it.
			verif.Assert(!s.Bare, "protected-pattern-registered-without-Authenticate:"+s.Pattern)
			verif.Assert(s.Wrapped, "inv:protected-pattern-syntactically-wrapped:"+s.Pattern)
		}
	}
	verif.Assert(seen == 4, "inv:all-protected-patterns-have-a-constant-registration")
	verif.Reach("end")
}

var _ = hap.MethodGET
