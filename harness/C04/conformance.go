//hcverif:pkg hap/endpoint
package endpoint

import (
	"bytes"
	"crypto/ed25519"
	"encoding/binary"
	"github.com/brutella/hc/db"

	xchacha "golang.org/x/crypto/chacha20poly1305"
	"golang.org/x/crypto/curve25519"

	"github.com/brutella/hc/hap/pair"
	"github.com/brutella/hc/util"

	"hcverif/verif"
)

func rcParse(b []byte) util.Container {
	c, _ := util.NewTLV8ContainerFromReader(bytes.NewBuffer(append([]byte{}, b...)))
	return c
}

// c04Pin returns a setup code XXX-XX-XXX of eight symbolic digits.
func c04Pin(name string) string {
	d := verif.Bytes(name, 8)
	for i := range d {
		verif.Assume(d[i] >= '0' && d[i] <= '9')
	}
	return string(d[:3]) + "-" + string(d[3:5]) + "-" + string(d[5:])
}

// The reference controller pairs (M1..M6), verifies (M1..M4) and exchanges one encrypted
// message in each direction with the real accessory code, for a symbolic setup code,
// controller identifier and keys. Every value the accessory emits verifies under the
// specification's algorithms and constants.
func Harness_C04_q_pair_verify_talk() {
	// Earlier in the life of this process an accessory of the same name may have run with a
	// different setup code (the code was changed, or another instance was created): nothing
	// of it may leak into this accessory's pairing.
	// request bodies arrive in one piece, or in two (split inside the first TLV value / inside
	// a later one); the split runs are made without the other pre-state variations
	eeBodySplit = []int{0, 3, 40}[verif.Choice("body-split", 3)]
	defer func() { eeBodySplit = 0 }()
	plain := eeBodySplit != 0
	if !plain && verif.Choice("earlier-accessory", 2) == 1 {
		verif.Fact("earlier-accessory", "same name, other setup code")
		w0 := eeNewWorld()
		w0.dev.pin = "111-22-333"
		w0.connect("10.0.0.7:5000")
		eePost(w0.setup, "/pair-setup", "10.0.0.7:5000", eeTLV(pair.TagPairingMethod, byte(0), pair.TagSequence, byte(1)))
	}
	w := eeNewWorld()
	w.dev.pin = c04Pin("pin")
	verif.Assume(w.dev.pin != "111-22-333")
	conn, sess := w.connect("10.0.0.2:5000")
	remote := "10.0.0.2:5000"
	idLen := []int{1, 36}[verif.Choice("idlen", 2)]
	ctrlID := verif.Bytes("controller-id", idLen)
	ctrlPub, ctrlPriv, _ := ed25519.GenerateKey(nil)
	// storage contents before pairing: nothing, a stale pairing under the same identifier
	// with another key (the controller was reset and pairs again), or somebody else's pairing
	stalePub, _, _ := ed25519.GenerateKey(nil)
	storageKind := 0
	if !plain {
		storageKind = verif.Choice("storage", 3)
	}
	switch storageKind {
	case 1:
		verif.Fact("storage", "stale pairing with the same identifier")
		w.db.SaveEntity(db.NewEntity(string(ctrlID), stalePub, nil))
	case 2:
		verif.Fact("storage", "unrelated pairing")
		w.db.SaveEntity(db.NewEntity("someone-else", stalePub, nil))
	}

	// what happened on this connection before: nothing, a pair-setup attempt with a wrong
	// setup code (answered with an error), or a message out of order
	attemptKind := 0
	if !plain {
		attemptKind = verif.Choice("earlier-attempt", 3)
	}
	switch attemptKind {
	case 1:
		verif.Fact("earlier-attempt", "wrong setup code")
		r0, _ := eePost(w.setup, "/pair-setup", remote, eeTLV(pair.TagPairingMethod, byte(0), pair.TagSequence, byte(1)))
		if t := r0.tlv(); t != nil && len(t.GetBytes(pair.TagSalt)) == 16 && len(t.GetBytes(pair.TagPublicKey)) > 0 {
			wrong := c04Pin("wrong-pin")
			verif.Assume(wrong != w.dev.pin)
			wc := rcSRPClient(verif.Bytes("wrong-client-a", 32), wrong, t.GetBytes(pair.TagSalt), t.GetBytes(pair.TagPublicKey))
			eePost(w.setup, "/pair-setup", remote, eeTLV(pair.TagSequence, byte(3), pair.TagPublicKey, wc.A, pair.TagProof, wc.M1))
		}
	case 2:
		verif.Fact("earlier-attempt", "key exchange out of order")
		eePost(w.setup, "/pair-setup", remote, eeTLV(pair.TagSequence, byte(5), pair.TagEncryptedData, verif.Bytes("junk-enc", 24)))
	}

	// ---- pair-setup ----
	rec, p := eePost(w.setup, "/pair-setup", remote, eeTLV(pair.TagPairingMethod, byte(0), pair.TagSequence, byte(1)))
	verif.Assert(!p && rec.status == 200, "M2-answered")
	m2 := rec.tlv()
	verif.Assert(m2 != nil && m2.GetByte(pair.TagSequence) == 2 && m2.GetByte(pair.TagErrCode) == 0, "M2-state")
	if m2 == nil {
		return
	}
	salt, B := m2.GetBytes(pair.TagSalt), m2.GetBytes(pair.TagPublicKey)
	verif.Assert(len(salt) == 16, "M2-salt-16-bytes")
	// big-endian without leading zero bytes: 384 bytes, fewer with probability 2^-8 per byte
	verif.Assert(len(B) > 0 && len(B) <= 384, "M2-B-at-most-384-bytes")
	if len(salt) != 16 || len(B) == 0 || len(B) > 384 {
		return
	}
	c := rcSRPClient(verif.Bytes("client-a", 32), w.dev.pin, salt, B)
	rec, p = eePost(w.setup, "/pair-setup", remote, eeTLV(pair.TagSequence, byte(3), pair.TagPublicKey, c.A, pair.TagProof, c.M1))
	verif.Assert(!p && rec.status == 200, "M4-answered")
	m4 := rec.tlv()
	verif.Assert(m4 != nil && m4.GetByte(pair.TagSequence) == 4 && m4.GetByte(pair.TagErrCode) == 0, "M4-accepts-right-setup-code")
	if m4 == nil || m4.GetByte(pair.TagErrCode) != 0 {
		return
	}
	verif.Assert(verif.Eq(m4.GetBytes(pair.TagProof), rcM2(c)), "M4-server-proof-is-H(A|M1|K)")

	encKey := rcHKDF(c.K, "Pair-Setup-Encrypt-Salt", "Pair-Setup-Encrypt-Info")
	ctrlX := rcHKDF(c.K, "Pair-Setup-Controller-Sign-Salt", "Pair-Setup-Controller-Sign-Info")
	sig := ed25519.Sign(ctrlPriv, append(append(append([]byte{}, ctrlX...), ctrlID...), ctrlPub...))
	sub := eeTLV(pair.TagUsername, ctrlID, pair.TagPublicKey, []byte(ctrlPub), pair.TagSignature, sig)
	rec, p = eePost(w.setup, "/pair-setup", remote, eeTLV(pair.TagSequence, byte(5), pair.TagEncryptedData, rcSeal(encKey, "PS-Msg05", sub)))
	verif.Assert(!p && rec.status == 200, "M6-answered")
	m6 := rec.tlv()
	verif.Assert(m6 != nil && m6.GetByte(pair.TagSequence) == 6 && m6.GetByte(pair.TagErrCode) == 0, "M6-state")
	if m6 == nil {
		return
	}
	pt, ok := rcOpen(encKey, "PS-Msg06", m6.GetBytes(pair.TagEncryptedData))
	verif.Assert(ok, "M6-opens-under-PS-Msg06")
	if !ok {
		return
	}
	acc := rcParse(pt)
	accID, accLTPK, accSig := acc.GetBytes(pair.TagUsername), acc.GetBytes(pair.TagPublicKey), acc.GetBytes(pair.TagSignature)
	verif.Assert(verif.Eq(accID, []byte(w.dev.name)) && verif.Eq(accLTPK, w.accPub), "M6-accessory-identity")
	accX := rcHKDF(c.K, "Pair-Setup-Accessory-Sign-Salt", "Pair-Setup-Accessory-Sign-Info")
	verif.Assert(len(accLTPK) == 32 && len(accSig) == 64 &&
		ed25519.Verify(accLTPK, append(append(append([]byte{}, accX...), accID...), accLTPK...), accSig), "M6-accessory-signature-verifies")
	e, err := w.db.EntityWithName(string(ctrlID))
	verif.Assert(err == nil && verif.Eq(e.PublicKey, ctrlPub), "controller-pairing-stored")
	verif.Assert(len(w.emitted) == 1, "paired-event-emitted-once")

	// ---- pair-verify ----
	var eSK, ePK [32]byte
	copy(eSK[:], verif.Bytes("ctrl-eph-seed", 32))
	curve25519.ScalarBaseMult(&ePK, &eSK)
	rec, p = eePost(w.verify, "/pair-verify", remote, eeTLV(pair.TagSequence, byte(1), pair.TagPublicKey, ePK[:]))
	verif.Assert(!p && rec.status == 200, "V2-answered")
	v2 := rec.tlv()
	verif.Assert(v2 != nil && v2.GetByte(pair.TagSequence) == 2, "V2-state")
	if v2 == nil {
		return
	}
	accEph := v2.GetBytes(pair.TagPublicKey)
	verif.Assert(len(accEph) == 32, "V2-ephemeral-key-32-bytes")
	if len(accEph) != 32 {
		return
	}
	var accEphA, shared [32]byte
	copy(accEphA[:], accEph)
	curve25519.ScalarMult(&shared, &eSK, &accEphA)
	vKey := rcHKDF(shared[:], "Pair-Verify-Encrypt-Salt", "Pair-Verify-Encrypt-Info")
	pt, ok = rcOpen(vKey, "PV-Msg02", v2.GetBytes(pair.TagEncryptedData))
	verif.Assert(ok, "V2-opens-under-PV-Msg02")
	if !ok {
		return
	}
	v2sub := rcParse(pt)
	verif.Assert(verif.Eq(v2sub.GetBytes(pair.TagUsername), []byte(w.dev.name)), "V2-names-the-accessory")
	v2sig := v2sub.GetBytes(pair.TagSignature)
	verif.Assert(len(v2sig) == 64 && ed25519.Verify(accLTPK, append(append(append([]byte{}, accEph...), []byte(w.dev.name)...), ePK[:]...), v2sig), "V2-accessory-signature-verifies")
	v3sig := ed25519.Sign(ctrlPriv, append(append(append([]byte{}, ePK[:]...), ctrlID...), accEph...))
	rec, p = eePost(w.verify, "/pair-verify", remote, eeTLV(pair.TagSequence, byte(3), pair.TagEncryptedData,
		rcSeal(vKey, "PV-Msg03", eeTLV(pair.TagUsername, ctrlID, pair.TagSignature, v3sig))))
	verif.Assert(!p && rec.status == 200, "V4-answered")
	v4 := rec.tlv()
	verif.Assert(v4 != nil && v4.GetByte(pair.TagSequence) == 4 && v4.GetByte(pair.TagErrCode) == 0, "V4-verified")
	verif.Assert(sess.Encrypter() == nil, "V4-response-still-plaintext")
	dec := sess.Decrypter()
	verif.Assert(dec != nil && sess.Encrypter() != nil, "session-switches-to-encrypted-after-V4")
	if dec == nil {
		return
	}

	// ---- talk: requests from one frame to several, through the accessory's connection ----
	c2a := rcHKDF(shared[:], "Control-Salt", "Control-Write-Encryption-Key")
	a2c := rcHKDF(shared[:], "Control-Salt", "Control-Read-Encryption-Key")
	frames := func(key []byte, ctr uint64, pt []byte) ([]byte, uint64) {
		a, _ := xchacha.New(key)
		out := []byte{}
		for len(pt) > 0 {
			n := len(pt)
			if n > 1024 {
				n = 1024
			}
			var nonce [12]byte
			binary.LittleEndian.PutUint64(nonce[4:], ctr)
			ctr++
			ad := []byte{byte(n), byte(n >> 8)}
			out = append(append(out, ad...), a.Seal(nil, nonce[:], pt[:n], ad)...)
			pt = pt[n:]
		}
		return out, ctr
	}
	sizes := []int{3, 1024, 1025, 2049}
	if !verif.Thorough() {
		sizes = []int{3, 1024, 1025}
	}
	req := verif.Bytes("request", sizes[verif.Choice("request-size", len(sizes))])
	wire, _ := frames(c2a, 0, req)
	conn.in = append(conn.in, wire...)
	var got []byte
	for i := 0; i < 8 && len(got) < len(req); i++ {
		buf := make([]byte, 4096)
		n, err := w.lastConn.Read(buf)
		verif.Assert(err == nil, "accessory-reads-controller-frames")
		if err != nil {
			return
		}
		got = append(got, buf[:n]...)
	}
	verif.Assert(verif.Eq(got, req), "accessory-reads-the-request")
	resp := verif.Bytes("response", sizes[verif.Choice("response-size", len(sizes))])
	n, err2 := w.lastConn.Write(append([]byte{}, resp...))
	verif.Assert(err2 == nil && n > 0, "accessory-writes-the-response")
	var sent []byte
	for _, b := range conn.written {
		sent = append(sent, b...)
	}
	want, _ := frames(a2c, 0, resp)
	verif.Assert(verif.Eq(sent, want), "accessory-frames-use-the-read-key-and-counters-from-0")
	_ = dec
	verif.Reach("end")
}

// With a different setup code the same controller is answered with error 2, no proof, and
// nothing is stored.
func Harness_C04_q_wrong_setup_code() {
	w := eeNewWorld()
	w.dev.pin = c04Pin("pin")
	wrong := c04Pin("wrong-pin")
	verif.Assume(wrong != w.dev.pin)
	w.connect("10.0.0.2:5000")
	remote := "10.0.0.2:5000"
	rec, _ := eePost(w.setup, "/pair-setup", remote, eeTLV(pair.TagPairingMethod, byte(0), pair.TagSequence, byte(1)))
	m2 := rec.tlv()
	if m2 == nil {
		return
	}
	salt, B := m2.GetBytes(pair.TagSalt), m2.GetBytes(pair.TagPublicKey)
	if len(salt) != 16 || len(B) == 0 {
		return
	}
	c := rcSRPClient(verif.Bytes("client-a", 32), wrong, salt, B)
	rec, p := eePost(w.setup, "/pair-setup", remote, eeTLV(pair.TagSequence, byte(3), pair.TagPublicKey, c.A, pair.TagProof, c.M1))
	verif.Assert(!p && rec.status == 200, "M4-answered")
	m4 := rec.tlv()
	verif.Assert(m4 != nil && m4.GetByte(pair.TagSequence) == 4 && m4.GetByte(pair.TagErrCode) == 2, "wrong-code-answered-with-authentication-error")
	if m4 != nil {
		verif.Assert(len(m4.GetBytes(pair.TagProof)) == 0, "wrong-code-no-server-proof")
	}
	verif.Assert(w.db.saves == 0 && len(w.emitted) == 0, "wrong-code-nothing-stored")
	verif.Reach("end")
}
