//hcverif:pkg crypto
package crypto

import (
	"bytes"
	"io/ioutil"

	"hcverif/verif"
)

// The adversary presents an ARBITRARY byte stream S (every byte symbolic) of every length up
// to the bound. The honest material it may copy from is on the table as logged seals:
// the peer's frames W_0..W_{F-1} (this direction, counters c0, c0+1, ...), the accessory's
// own outgoing frames (reflection) and frames of another session. Since S ranges over all
// byte strings, every flip / truncation / drop / duplication / reordering / replay /
// reflection within the length bound is one of its values.
//
// Oracle (receiver written from the specification): the receiver accepts exactly the
// longest prefix of S that is W_0 W_1 ... in order; it releases their plaintexts and
// nothing else, and reports an error as soon as the stream deviates.
func c05Run(F int, lens []int, extra int, counters bool) {
	var secret, other [32]byte
	copy(secret[:], verif.Bytes("secret", 32))
	copy(other[:], verif.Bytes("other-secret", 32))
	verif.Assume(!verif.Eq(secret[:], other[:]))
	accC, _ := NewSecureSessionFromSharedKey(secret)
	ctlC, _ := NewSecureClientSessionFromSharedKey(secret)
	ctl2C, _ := NewSecureClientSessionFromSharedKey(other)
	acc, ctl, ctl2 := accC.(*secureSession), ctlC.(*secureSession), ctl2C.(*secureSession)
	c0 := uint64(0)
	if counters {
		c0 = verif.U64("c0")
		verif.Assume(c0 < 0xffffffffffffff00) // no wrap inside the run
	}
	acc.decryptCount, ctl.encryptCount, ctl2.encryptCount = c0, c0, c0
	acc.encryptCount = verif.U64("e0")
	verif.Assume(acc.encryptCount < 0xffffffffffffff00)

	W := make([][]byte, F)
	P := make([][]byte, F)
	total := 0
	for j := 0; j < F; j++ {
		n := lens[verif.Choice("plen"+string(rune('0'+j)), len(lens))]
		P[j] = verif.Bytes("p"+string(rune('0'+j)), n)
		r, _ := ctl.Encrypt(bytes.NewBuffer(append([]byte{}, P[j]...)))
		W[j], _ = ioutil.ReadAll(r)
		total += len(W[j])
		// the same plaintext sealed by the accessory itself (reflection) and in another session
		acc.Encrypt(bytes.NewBuffer(append([]byte{}, P[j]...)))
		ctl2.Encrypt(bytes.NewBuffer(append([]byte{}, P[j]...)))
	}
	// a frame the peer sent EARLIER in this session (any earlier counter value) is also on
	// the table: replaying it later must fail although key and direction are right
	if counters {
		old := verif.U64("c-old")
		verif.Assume(old < c0)
		saved := ctl.encryptCount
		ctl.encryptCount = old
		ctl.Encrypt(bytes.NewBuffer(verif.Bytes("p-old", lens[verif.Choice("plen-old", len(lens))])))
		ctl.encryptCount = saved
	}
	L := verif.Choice("stream-len", total+extra+1)
	S := verif.Bytes("S", L)
	verif.MakeCap(total + extra)

	buf := bytes.NewBuffer(append([]byte{}, S...))
	released := []byte{}
	sawErr := false
	calls := 0
	for buf.Len() > 0 && !sawErr && calls < F+2 {
		calls++
		r, err := acc.Decrypt(buf)
		if err != nil {
			sawErr = true
			verif.Assert(r == nil, "error-releases-nothing")
			break
		}
		d, _ := ioutil.ReadAll(r)
		released = append(released, d...)
	}

	// reference receiver
	exp := []byte{}
	pos, j := 0, 0
	for j < F && pos+len(W[j]) <= len(S) && verif.Eq(S[pos:pos+len(W[j])], W[j]) {
		exp = append(exp, P[j]...)
		pos += len(W[j])
		j++
	}
	verif.Assert(verif.Eq(released, exp), "released-is-honest-frame-prefix")
	if pos < len(S) && calls < F+2 {
		// bytes beyond the honest prefix were presented: they must have produced an error
		// (empty payload frames carry no data but are still authenticated frames)
		verif.Assert(sawErr, "deviation-reported")
	}
	if pos == len(S) {
		verif.Assert(!sawErr, "honest-stream-accepted")
	}
	verif.Reach("end")
}

func Harness_C05_q_arbitrary_stream() {
	c05Run(2, []int{0, 1}, 2, true)
}

func Harness_C05_t_arbitrary_stream_3() {
	c05Run(3, []int{0, 1, 2}, 3, true)
}

// Scripted adversary (replayable with real ciphertext): the stream is a sequence of slots,
// each an honest frame of this direction (W), of the accessory's own direction (R,
// reflection) or of another session (O), presented intact or with an arbitrary non-zero
// XOR mask; the last slot may be truncated. Symbolically this family is a subset of
// Harness_C05_*_arbitrary_stream (same oracle); its purpose is that a counterexample
// names real frames and so reproduces natively with the real ChaCha20-Poly1305.
func c05Scripted(F, slots int, lens []int) {
	var secret, other [32]byte
	copy(secret[:], verif.Bytes("secret", 32))
	copy(other[:], verif.Bytes("other-secret", 32))
	verif.Assume(!verif.Eq(secret[:], other[:]))
	accC, _ := NewSecureSessionFromSharedKey(secret)
	ctlC, _ := NewSecureClientSessionFromSharedKey(secret)
	ctl2C, _ := NewSecureClientSessionFromSharedKey(other)
	acc, ctl, ctl2 := accC.(*secureSession), ctlC.(*secureSession), ctl2C.(*secureSession)
	c0 := verif.U64("c0")
	verif.Assume(c0 < 0xffffffffffffff00)
	// the accessory's own send counter equal to its receive counter is the most favourable
	// case for a reflection attack
	acc.decryptCount, ctl.encryptCount, ctl2.encryptCount, acc.encryptCount = c0, c0, c0, c0
	W := make([][]byte, F)
	R := make([][]byte, F)
	O := make([][]byte, F)
	P := make([][]byte, F)
	for j := 0; j < F; j++ {
		n := lens[verif.Choice("plen"+string(rune('0'+j)), len(lens))]
		P[j] = verif.Bytes("p"+string(rune('0'+j)), n)
		r, _ := ctl.Encrypt(bytes.NewBuffer(append([]byte{}, P[j]...)))
		W[j], _ = ioutil.ReadAll(r)
		r, _ = acc.Encrypt(bytes.NewBuffer(append([]byte{}, P[j]...)))
		R[j], _ = ioutil.ReadAll(r)
		r, _ = ctl2.Encrypt(bytes.NewBuffer(append([]byte{}, P[j]...)))
		O[j], _ = ioutil.ReadAll(r)
	}
	// a frame from earlier in the session (arbitrary earlier counter)
	old := verif.U64("c-old")
	verif.Assume(old < c0)
	ctl.encryptCount = old
	er, _ := ctl.Encrypt(bytes.NewBuffer(append([]byte{}, P[0]...)))
	E, _ := ioutil.ReadAll(er)
	ctl.encryptCount = c0 + uint64(F)
	S := []byte{}
	script := ""
	k := 1 + verif.Choice("slots", slots)
	for i := 0; i < k; i++ {
		id := string(rune('0' + i))
		src := verif.Choice("src"+id, 3*F+1)
		j := src % F
		var f []byte
		switch src / F {
		case 3:
			f = append([]byte{}, E...)
			script += "EARLIER"
		case 0:
			f = append([]byte{}, W[j]...)
			script += "W" + string(rune('0'+j))
		case 1:
			f = append([]byte{}, R[j]...)
			script += "R" + string(rune('0'+j))
		default:
			f = append([]byte{}, O[j]...)
			script += "O" + string(rune('0'+j))
		}
		nops := 2
		if i == k-1 {
			nops = 3
		}
		if len(f) == 0 {
			nops = 1 // an empty message has no frame to alter
		}
		switch verif.Choice("op"+id, nops) {
		case 1: // arbitrary non-zero mask on one symbolic position
			pos := verif.Int("maskpos"+id, 0, len(f)-1)
			m := verif.U8("mask" + id)
			verif.Assume(m != 0)
			for b := range f {
				f[b] ^= verif.IteU8(b == pos, m, 0)
			}
			script += "^bit "
		case 2: // truncate (last slot only)
			cuts := []int{1, 2, 3, len(f) - 16, len(f) - 1}
			f = f[:cuts[verif.Choice("cut"+id, len(cuts))]]
			script += "[:cut] "
		default:
			script += " "
		}
		S = append(S, f...)
	}
	verif.Fact("script", script)
	verif.MakeCap(len(S))

	buf := bytes.NewBuffer(append([]byte{}, S...))
	released := []byte{}
	sawErr := false
	calls := 0
	for buf.Len() > 0 && !sawErr && calls < k+1 {
		calls++
		r, err := acc.Decrypt(buf)
		if err != nil {
			sawErr = true
			verif.Assert(r == nil, "error-releases-nothing")
			break
		}
		d, _ := ioutil.ReadAll(r)
		released = append(released, d...)
	}
	// reference receiver (same oracle as the arbitrary-stream harness)
	exp := []byte{}
	pos, j := 0, 0
	for j < F && pos+len(W[j]) <= len(S) && verif.Eq(S[pos:pos+len(W[j])], W[j]) {
		exp = append(exp, P[j]...)
		pos += len(W[j])
		j++
	}
	verif.Assert(verif.Eq(released, exp), "released-is-honest-frame-prefix")
	if pos < len(S) && calls < k+1 {
		verif.Assert(sawErr, "deviation-reported")
	}
	if pos == len(S) {
		verif.Assert(!sawErr, "honest-stream-accepted")
	}
	verif.Reach("end")
}

func Harness_C05_q_scripted() {
	c05Scripted(2, 2, []int{1})
}

func Harness_C05_t_scripted_3() {
	c05Scripted(2, 3, []int{0, 1})
}

// A multi-frame message (full 1024-byte frames followed by a last frame) handed to one
// Decrypt call: any alteration of any of its frames (one byte XORed at a symbolic position,
// frames swapped, a frame dropped or duplicated) yields an error and releases at most the
// plaintext of the unmodified leading frames; the intact message is accepted.
func Harness_C05_q_multi_frame_message() {
	var secret [32]byte
	copy(secret[:], verif.Bytes("secret", 32))
	accC, _ := NewSecureSessionFromSharedKey(secret)
	ctlC, _ := NewSecureClientSessionFromSharedKey(secret)
	acc, ctl := accC.(*secureSession), ctlC.(*secureSession)
	c0 := verif.U64("c0")
	verif.Assume(c0 < 0xffffffffffffff00)
	acc.decryptCount, ctl.encryptCount = c0, c0
	n := []int{1025, 2048 + 7}[verif.Choice("message-len", 2)]
	P := verif.Bytes("p", n)
	r, _ := ctl.Encrypt(bytes.NewBuffer(append([]byte{}, P...)))
	wire, _ := ioutil.ReadAll(r)
	var frames [][]byte
	for off, rest := 0, n; rest > 0; {
		f := rest
		if f > 1024 {
			f = 1024
		}
		frames = append(frames, wire[off:off+2+f+16])
		off += 2 + f + 16
		rest -= f
	}
	k := len(frames)
	// the adversary's version of the message
	var S []byte
	altered := 0 // index of the first frame that is not the honest one, k if none
	alteredSet := false
	mark := func(i int) {
		if !alteredSet {
			altered, alteredSet = i, true
		}
	}
	switch verif.Choice("alteration", 5) {
	case 0: // intact
		verif.Fact("alteration", "none")
		S = append(S, wire...)
	case 1: // one byte of one frame XORed
		verif.Fact("alteration", "bit-flip")
		which := verif.Choice("which-frame", k)
		for i, f := range frames {
			g := append([]byte{}, f...)
			if i == which {
				// representative positions: first / middle / last ciphertext byte, first / last tag
				// byte (flips of the length field are explored with small frames elsewhere)
				cands := []int{0, 1, 2, len(g) / 2, len(g) - 17, len(g) - 16, len(g) - 1} // 0, 1: the length field
				pos := cands[verif.Choice("flip-pos", len(cands))]
				m := verif.U8("flip-mask")
				verif.Assume(m != 0)
				g[pos] ^= m
				mark(i)
			}
			S = append(S, g...)
		}
	case 2: // first two frames swapped
		verif.Fact("alteration", "swap")
		S = append(append(append(S, frames[1]...), frames[0]...), bytesJoin(frames[2:])...)
		mark(0)
	case 3: // a frame dropped
		verif.Fact("alteration", "drop")
		which := verif.Choice("which-frame", k-1) // dropping the last one is a truncation at a frame boundary: a valid shorter stream
		for i, f := range frames {
			if i != which {
				S = append(S, f...)
			}
		}
		mark(which)
	default: // a frame duplicated
		verif.Fact("alteration", "duplicate")
		which := verif.Choice("which-frame", k-1)
		for i, f := range frames {
			S = append(S, f...)
			if i == which {
				S = append(S, f...)
				mark(i + 1)
			}
		}
	}
	if !alteredSet {
		altered = k
	}
	verif.MakeCap(len(S))
	out, err := acc.Decrypt(bytes.NewBuffer(S))
	if altered == k {
		verif.Assert(err == nil, "intact-message-accepted")
		if err == nil {
			got, _ := ioutil.ReadAll(out)
			verif.Assert(verif.Eq(got, P), "intact-message-plaintext")
		}
	} else {
		verif.Assert(err != nil, "altered-frame-reported")
		if out != nil {
			got, _ := ioutil.ReadAll(out)
			lim := altered * 1024
			verif.Assert(len(got) <= lim && len(got)%1024 == 0 && verif.Eq(got, P[:len(got)]), "released-is-unmodified-frame-prefix")
		}
	}
	verif.Reach("end")
}

func bytesJoin(xs [][]byte) []byte {
	out := []byte{}
	for _, x := range xs {
		out = append(out, x...)
	}
	return out
}

// Calls that end on a FULL 1024-byte frame (the stream handed to Decrypt ends right after it,
// as hap.Connection does frame by frame): the counter has advanced by exactly the frames
// released, so the peer's next frame is accepted in a second call, and the same frames
// presented again are rejected and release nothing.
func Harness_C05_q_full_frame_then_next_call() {
	var secret [32]byte
	copy(secret[:], verif.Bytes("secret", 32))
	accC, _ := NewSecureSessionFromSharedKey(secret)
	ctlC, _ := NewSecureClientSessionFromSharedKey(secret)
	acc, ctl := accC.(*secureSession), ctlC.(*secureSession)
	c0 := verif.U64("c0")
	verif.Assume(c0 < 0xffffffffffffff00)
	acc.decryptCount, ctl.encryptCount = c0, c0
	n1 := []int{1024, 2048, 1}[verif.Choice("first-len", 3)]
	P1 := verif.Bytes("p1", n1)
	r, _ := ctl.Encrypt(bytes.NewBuffer(append([]byte{}, P1...)))
	W1, _ := ioutil.ReadAll(r)
	P2 := verif.Bytes("p2", []int{1, 1024}[verif.Choice("second-len", 2)])
	r, _ = ctl.Encrypt(bytes.NewBuffer(append([]byte{}, P2...)))
	W2, _ := ioutil.ReadAll(r)
	out, err := acc.Decrypt(bytes.NewBuffer(append([]byte{}, W1...)))
	verif.Assert(err == nil, "first-message-accepted")
	if err != nil {
		return
	}
	got, _ := ioutil.ReadAll(out)
	verif.Assert(verif.Eq(got, P1), "first-message-plaintext")
	if verif.Choice("second-call", 2) == 0 {
		verif.Fact("second-call", "replay of the first message")
		out, err = acc.Decrypt(bytes.NewBuffer(append([]byte{}, W1...)))
		verif.Assert(err != nil, "replayed-frames-rejected")
		if out != nil {
			g, _ := ioutil.ReadAll(out)
			verif.Assert(len(g) == 0, "replay-releases-nothing")
		}
	} else {
		verif.Fact("second-call", "the peer's next message")
		out, err = acc.Decrypt(bytes.NewBuffer(append([]byte{}, W2...)))
		verif.Assert(err == nil, "next-message-accepted")
		if err == nil {
			g, _ := ioutil.ReadAll(out)
			verif.Assert(verif.Eq(g, P2), "next-message-plaintext")
		}
	}
	verif.Reach("end")
}
