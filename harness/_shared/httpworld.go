//hcverif:pkg hap/http
package http

// Shared test world for the handler-level harnesses (C01, C09, C10, C11, C13): a real
// Server (setupEndpoints on a recorded mux), a real hap.Context with real sessions and
// connections, a real accessory container; only the database, the device identity, the
// socket and the ResponseWriter are harness objects.

import (
	"bytes"
	"crypto/ed25519"
	"encoding/json"
	"io"
	"io/ioutil"
	"net"
	"net/http"
	"net/url"
	"sync"
	"time"

	"github.com/brutella/hc/accessory"
	"github.com/brutella/hc/characteristic"
	"github.com/brutella/hc/crypto"
	"github.com/brutella/hc/db"
	"github.com/brutella/hc/event"
	"github.com/brutella/hc/hap"
	"github.com/brutella/hc/service"

	"hcverif/verif"
)

type zzAddr string

func (a zzAddr) Network() string { return "tcp" }
func (a zzAddr) String() string  { return string(a) }

type zzConn struct {
	addr    zzAddr
	written [][]byte
	closed  bool
}

func (c *zzConn) Read(b []byte) (int, error) { return 0, nil }
func (c *zzConn) Write(b []byte) (int, error) {
	c.written = append(c.written, append([]byte{}, b...))
	return len(b), nil
}
func (c *zzConn) Close() error                       { c.closed = true; return nil }
func (c *zzConn) LocalAddr() net.Addr                { return zzAddr("127.0.0.1:1") }
func (c *zzConn) RemoteAddr() net.Addr               { return c.addr }
func (c *zzConn) SetDeadline(t time.Time) error      { return nil }
func (c *zzConn) SetReadDeadline(t time.Time) error  { return nil }
func (c *zzConn) SetWriteDeadline(t time.Time) error { return nil }

type zzDevice struct {
	name      string
	pub, priv []byte
	pin       string
}

func (d *zzDevice) Name() string       { return d.name }
func (d *zzDevice) PrivateKey() []byte { return d.priv }
func (d *zzDevice) PublicKey() []byte  { return d.pub }
func (d *zzDevice) Pin() string        { return d.pin }

// zzDB is an in-memory db.Database that records mutations.
type zzDB struct {
	names   []string
	ents    []db.Entity
	saves   int
	deletes int
}

func (d *zzDB) find(name string) int {
	for i, n := range d.names {
		if n == name {
			return i
		}
	}
	return -1
}
func (d *zzDB) EntityWithName(name string) (db.Entity, error) {
	if i := d.find(name); i >= 0 {
		return d.ents[i], nil
	}
	return db.Entity{}, zzErr("not found")
}
func (d *zzDB) SaveEntity(e db.Entity) error {
	d.saves++
	if i := d.find(e.Name); i >= 0 {
		d.ents[i] = e
		return nil
	}
	d.names = append(d.names, e.Name)
	d.ents = append(d.ents, e)
	return nil
}
func (d *zzDB) DeleteEntity(e db.Entity) {
	d.deletes++
	if i := d.find(e.Name); i >= 0 {
		d.names = append(d.names[:i], d.names[i+1:]...)
		d.ents = append(d.ents[:i], d.ents[i+1:]...)
	}
}
func (d *zzDB) Entities() ([]db.Entity, error) { return append([]db.Entity{}, d.ents...), nil }

type zzErr string

func (e zzErr) Error() string { return string(e) }

type zzRecorder struct {
	hdr    http.Header
	status int
	body   []byte
}

func newRecorder() *zzRecorder            { return &zzRecorder{hdr: http.Header{}} }
func (r *zzRecorder) Header() http.Header { return r.hdr }
func (r *zzRecorder) WriteHeader(code int) {
	if r.status == 0 {
		r.status = code
	}
}
func (r *zzRecorder) Write(b []byte) (int, error) {
	if r.status == 0 {
		r.status = 200
	}
	r.body = append(r.body, b...)
	return len(b), nil
}

// docs decodes the JSON documents in the response body.
func (r *zzRecorder) docs() []interface{} {
	var out []interface{}
	dec := json.NewDecoder(bytes.NewReader(r.body))
	for {
		var v interface{}
		if err := dec.Decode(&v); err != nil {
			return out
		}
		out = append(out, v)
	}
}

// zzCrypt stands for an installed secure session (only its presence matters to handlers).
type zzCrypt struct{ id int }

func (zzCrypt) Encrypt(r io.Reader) (io.Reader, error) { return r, nil }
func (zzCrypt) Decrypt(r io.Reader) (io.Reader, error) { return r, nil }

type zzWorld struct {
	srv        *Server
	ctx        hap.Context
	db         *zzDB
	dev        *zzDevice
	container  *accessory.Container
	acc        *accessory.Accessory
	on         *characteristic.On
	bright     *characteristic.Brightness
	name       *characteristic.Name // read-only
	wo         *characteristic.Characteristic
	identified int
	emitted    []interface{}
	// a second accessory of the same shape (a bridge): instance ids repeat across accessories
	acc2    *accessory.Accessory
	bright2 *characteristic.Brightness
}

func (w *zzWorld) Handle(ev interface{}) { w.emitted = append(w.emitted, ev) }

func newWorld() *zzWorld {
	w := &zzWorld{}
	pub, priv, _ := ed25519.GenerateKey(nil)
	w.dev = &zzDevice{name: "acc", pub: pub, priv: priv, pin: "001-02-003"}
	w.db = &zzDB{}
	w.ctx = hap.NewContextForSecuredDevice(w.dev)
	w.container = accessory.NewContainer()
	w.acc = accessory.New(accessory.Info{Name: "canary-accessory"}, accessory.TypeLightbulb)
	svc := service.New("43")
	w.on = characteristic.NewOn()
	w.bright = characteristic.NewBrightness()
	w.wo = characteristic.NewCharacteristic("zz-write-only")
	w.wo.Format = characteristic.FormatInt32
	w.wo.Perms = characteristic.PermsWriteOnly()
	svc.AddCharacteristic(w.on.Characteristic)
	svc.AddCharacteristic(w.bright.Characteristic)
	svc.AddCharacteristic(w.wo)
	w.acc.AddService(svc)
	w.name = w.acc.Info.Name
	w.acc.OnIdentify(func() { w.identified++ })
	w.container.AddAccessory(w.acc)
	w.acc2 = accessory.New(accessory.Info{Name: "second-accessory"}, accessory.TypeLightbulb)
	svc2 := service.New("43")
	svc2.AddCharacteristic(characteristic.NewOn().Characteristic)
	w.bright2 = characteristic.NewBrightness()
	svc2.AddCharacteristic(w.bright2.Characteristic)
	w.acc2.AddService(svc2)
	w.container.AddAccessory(w.acc2)
	em := event.NewEmitter()
	em.AddListener(w)
	w.srv = testable(Config{Context: w.ctx, Database: w.db, Container: w.container, Device: w.dev, Mutex: &sync.Mutex{}, Emitter: em})
	return w
}

// connect registers a new connection (and its session) under the given remote address.
func (w *zzWorld) connect(addr string, verified bool) (*zzConn, hap.Session) {
	c := &zzConn{addr: zzAddr(addr)}
	hap.NewConnection(c, w.ctx)
	s := w.ctx.GetSessionForConnection(c)
	if verified {
		s.SetCryptographer(zzCrypt{1})
		s.Decrypter() // the next read switches the session to the new cryptographer
	}
	return c, s
}

// zzBodyChunk > 0 makes request bodies arrive in pieces of at most that many bytes per Read
// (a body that spans several frames / TCP segments); 0 delivers the body in one Read.
var zzBodyChunk int

type zzSlowBody struct {
	data  []byte
	chunk int
}

func (b *zzSlowBody) Read(p []byte) (int, error) {
	if len(b.data) == 0 {
		return 0, io.EOF
	}
	n := len(p)
	if n > b.chunk {
		n = b.chunk
	}
	if n > len(b.data) {
		n = len(b.data)
	}
	copy(p, b.data[:n])
	b.data = b.data[n:]
	return n, nil
}
func (b *zzSlowBody) Close() error { return nil }

func zzRequest(method, path, remote string, form url.Values, body []byte) *http.Request {
	r := &http.Request{Method: method, URL: &url.URL{Path: path}, RemoteAddr: remote, Form: form,
		Body: ioutil.NopCloser(bytes.NewBuffer(body)), Header: http.Header{}, ContentLength: int64(len(body))}
	if zzBodyChunk > 0 {
		r.Body = &zzSlowBody{data: append([]byte{}, body...), chunk: zzBodyChunk}
	}
	return r
}

var _ crypto.Cryptographer = zzCrypt{}
var _ = verif.Reach

func dbEntity(name string) db.Entity {
	pub, _, _ := ed25519.GenerateKey(nil)
	return db.NewEntity(name, pub, nil)
}

func zzFinite(name string) float64 {
	f := verif.F64(name)
	verif.Assume(verif.And(f == f, f-f == 0))
	return f
}

func itoa(u uint64) string {
	if u == 0 {
		return "0"
	}
	var b []byte
	for u > 0 {
		b = append([]byte{byte('0' + u%10)}, b...)
		u /= 10
	}
	return string(b)
}
