//hcverif:pkg hap/pair
package pair

import (
	"crypto/ed25519"
	"crypto/sha512"
	"math/big"
	"net"
	"time"

	"github.com/brutella/hc/db"
	"github.com/brutella/hc/hap"
	"github.com/brutella/hc/util"
	"github.com/tadglines/go-pkgs/crypto/srp"

	"hcverif/models"
	"hcverif/verif"
)

type ppDevice struct {
	name      string
	pub, priv []byte
	pin       string
}

func (d *ppDevice) Name() string       { return d.name }
func (d *ppDevice) PrivateKey() []byte { return d.priv }
func (d *ppDevice) PublicKey() []byte  { return d.pub }
func (d *ppDevice) Pin() string        { return d.pin }

type ppErr string

func (e ppErr) Error() string { return string(e) }

type ppDB struct {
	names []string
	ents  []db.Entity
	saves int
}

func (d *ppDB) find(name string) int {
	for i, n := range d.names {
		if n == name {
			return i
		}
	}
	return -1
}
func (d *ppDB) EntityWithName(name string) (db.Entity, error) {
	if i := d.find(name); i >= 0 {
		return d.ents[i], nil
	}
	return db.Entity{}, ppErr("not found")
}
func (d *ppDB) SaveEntity(e db.Entity) error {
	d.saves++
	if i := d.find(e.Name); i >= 0 {
		d.ents[i] = e
		return nil
	}
	d.names = append(d.names, e.Name)
	d.ents = append(d.ents, e)
	return nil
}
func (d *ppDB) DeleteEntity(e db.Entity) {
	if i := d.find(e.Name); i >= 0 {
		d.names = append(d.names[:i], d.names[i+1:]...)
		d.ents = append(d.ents[:i], d.ents[i+1:]...)
	}
}
func (d *ppDB) Entities() ([]db.Entity, error) { return append([]db.Entity{}, d.ents...), nil }

type ppAddr string

func (a ppAddr) Network() string { return "tcp" }
func (a ppAddr) String() string  { return string(a) }

type ppConn struct{}

func (ppConn) Read(b []byte) (int, error)         { return 0, nil }
func (ppConn) Write(b []byte) (int, error)        { return len(b), nil }
func (ppConn) Close() error                       { return nil }
func (ppConn) LocalAddr() net.Addr                { return ppAddr("127.0.0.1:1") }
func (ppConn) RemoteAddr() net.Addr               { return ppAddr("10.0.0.9:6000") }
func (ppConn) SetDeadline(t time.Time) error      { return nil }
func (ppConn) SetReadDeadline(t time.Time) error  { return nil }
func (ppConn) SetWriteDeadline(t time.Time) error { return nil }

func ppNewDevice() *ppDevice {
	pub, priv, _ := ed25519.GenerateKey(nil)
	return &ppDevice{name: "AC:CE:55:00:00:01", pub: pub, priv: priv, pin: "031-45-154"}
}

func ppTLV(items ...interface{}) util.Container {
	c := util.NewTLV8Container()
	for i := 0; i+1 < len(items); i += 2 {
		tag := uint8(items[i].(int))
		switch v := items[i+1].(type) {
		case byte:
			c.SetByte(tag, v)
		case []byte:
			c.SetBytes(tag, v)
		case string:
			c.SetString(tag, v)
		}
	}
	return c
}

func ppHash(parts ...[]byte) []byte {
	h := sha512.New()
	for _, p := range parts {
		h.Write(p)
	}
	return h.Sum(nil)
}

// ppHonestProof: what a client that knows the setup code sends as M3 (A, M1) and the
// session key K it derives, for the given salt and B.
func ppHonestProof(aSeed []byte, pin string, salt, B []byte) (A, M1, K []byte) {
	x := ppHash(salt, ppHash([]byte("Pair-Setup"), []byte(":"), []byte(pin)))
	if verif.IsSymbolic() {
		A = models.SRPClientPublic(aSeed)
		S := models.SRPClientPremaster(B, A, x)
		K = ppHash(S)
		M1 = models.SRPClientM1([]byte("Pair-Setup"), salt, A, B, K)
		return
	}
	s, _ := srp.NewSRP("rfc5054.3072", sha512.New, nil)
	N, g := s.Group.Prime, s.Group.Generator
	pad := func(b []byte) []byte {
		if len(b) >= 384 {
			return b
		}
		return append(make([]byte, 384-len(b)), b...)
	}
	a := new(big.Int).SetBytes(aSeed)
	An := new(big.Int).Exp(g, a, N)
	A = An.Bytes()
	Bn := new(big.Int).SetBytes(B)
	k := new(big.Int).SetBytes(ppHash(N.Bytes(), pad(g.Bytes())))
	u := new(big.Int).SetBytes(ppHash(pad(A), pad(B)))
	xn := new(big.Int).SetBytes(x)
	t := new(big.Int).Exp(g, xn, N)
	t.Mul(k, t)
	t.Sub(Bn, t)
	t.Mod(t, N)
	e := new(big.Int).Mul(u, xn)
	e.Add(a, e)
	S := new(big.Int).Exp(t, e, N)
	K = ppHash(S.Bytes())
	hn := new(big.Int).SetBytes(ppHash(N.Bytes()))
	hg := new(big.Int).SetBytes(ppHash(g.Bytes()))
	hng := hn.Xor(hn, hg)
	M1 = ppHash(hng.Bytes(), ppHash([]byte("Pair-Setup")), salt, A, B, K)
	return
}

// ppM1 is the client proof formula over values the caller knows.
func ppM1(salt, A, B, K []byte) []byte {
	if verif.IsSymbolic() {
		return models.SRPClientM1([]byte("Pair-Setup"), salt, A, B, K)
	}
	s, _ := srp.NewSRP("rfc5054.3072", sha512.New, nil)
	N, g := s.Group.Prime, s.Group.Generator
	hn := new(big.Int).SetBytes(ppHash(N.Bytes()))
	hg := new(big.Int).SetBytes(ppHash(g.Bytes()))
	hng := hn.Xor(hn, hg)
	return ppHash(hng.Bytes(), ppHash([]byte("Pair-Setup")), salt, new(big.Int).SetBytes(A).Bytes(), new(big.Int).SetBytes(B).Bytes(), K)
}

var _ hap.SecuredDevice = (*ppDevice)(nil)
