//hcverif:pkg hap/http
package http

import (
	"encoding/json"
	"net/url"

	"github.com/brutella/hc/characteristic"
	"github.com/brutella/hc/hap"

	"hcverif/verif"
)

// refLookup is the reference lookup of a characteristic by (aid, iid).
func (w *zzWorld) refLookup(aid, iid uint64) *characteristic.Characteristic {
	for _, a := range w.container.Accessories {
		if a.ID != aid {
			continue
		}
		for _, s := range a.Services {
			for _, c := range s.Characteristics {
				if c.ID == iid {
					return c
				}
			}
		}
	}
	return nil
}

func zzDigits(name string, n int) (string, uint64) {
	b := verif.Bytes(name, n)
	v := uint64(0)
	for i := range b {
		verif.Assume(b[i] >= '0' && b[i] <= '9')
		v = v*10 + uint64(b[i]-'0')
	}
	return string(b), v
}

// jsonNumber compares a decoded JSON number with an expected float64.
func zzNumEq(got interface{}, want float64) bool {
	f, ok := got.(float64)
	return ok && f == want
}

// zzGetScenario: GET /characteristics?id=... with up to k entries whose ids are decimal
// strings of symbolic digits; the application has set symbolic values before.
func zzGetScenario(k int) {
	w := newWorld()
	w.connect("10.0.0.2:5000", true)
	// application sets values
	bv := int(verif.U8("app-brightness"))
	verif.Assume(bv <= 100)
	w.bright.SetValue(bv)
	ov := verif.Bool("app-on")
	w.on.SetValue(ov)
	bv2 := int(verif.U8("app-brightness-2"))
	verif.Assume(bv2 <= 100 && bv2 != bv) // the second accessory's same-iid characteristic holds another value
	w.bright2.SetValue(bv2)
	verif.Assert(w.bright2.Characteristic.ID == w.bright.Characteristic.ID && w.acc2.ID != w.acc.ID, "world-has-colliding-instance-ids")

	n := 1 + verif.Choice("entries", k)
	ids := ""
	aids := make([]uint64, n)
	iids := make([]uint64, n)
	for i := 0; i < n; i++ {
		id := string(rune('0' + i))
		as, a := zzDigits("aid"+id, 1)
		iidLen := 1
		if i == 0 || k <= 2 {
			iidLen = 1 + verif.Choice("iidlen"+id, 2) // (with three entries only the first has a two-digit iid)
		}
		is, c := zzDigits("iid"+id, iidLen)
		aids[i], iids[i] = a, c
		if i > 0 {
			ids += ","
		}
		ids += as + "." + is
	}
	rec := newRecorder()
	form := url.Values{}
	form.Set("id", ids)
	p := verif.Panics(func() {
		verif.MuxHandler(w.srv.Mux, "/characteristics").ServeHTTP(rec, zzRequest("GET", "/characteristics", "10.0.0.2:5000", form, nil))
	})
	verif.Assert(!p, "nopanic-get")
	if p {
		return
	}
	docs := rec.docs()
	verif.Assert(len(docs) == 1, "get-one-document")
	if len(docs) != 1 {
		return
	}
	top, _ := docs[0].(map[string]interface{})
	arr, _ := top["characteristics"].([]interface{})
	verif.Assert(len(arr) == n, "get-one-entry-per-requested-id")
	if len(arr) != n {
		return
	}
	allExist := true
	for i := 0; i < n; i++ {
		ent, _ := arr[i].(map[string]interface{})
		verif.Assert(zzNumEq(ent["aid"], float64(aids[i])) && zzNumEq(ent["iid"], float64(iids[i])), "get-entry-order-and-ids")
		c := w.refLookup(aids[i], iids[i])
		st, hasStatus := ent["status"]
		if c == nil {
			allExist = false
			verif.Assert(hasStatus && zzNumEq(st, float64(hap.StatusServiceCommunicationFailure)), "get-unknown-id-has-error-status")
			_, hasValue := ent["value"]
			verif.Assert(!hasValue, "get-unknown-id-has-no-value")
			continue
		}
		switch c {
		case w.bright.Characteristic:
			verif.Assert(zzNumEq(ent["value"], float64(bv)), "get-value-is-what-the-application-set")
		case w.bright2.Characteristic:
			verif.Assert(zzNumEq(ent["value"], float64(bv2)), "get-value-of-the-second-accessory")
		case w.on.Characteristic:
			b, ok := ent["value"].(bool)
			// encoding/json omits false under omitempty-on-interface? no: the interface is non-nil
			verif.Assert(ok && b == ov, "get-bool-value-is-what-the-application-set")
		case w.wo:
			_, hasValue := ent["value"]
			verif.Assert(!hasValue, "get-write-only-reveals-nothing")
		}
	}
	if allExist {
		verif.Assert(rec.status == 200, "get-status-200-when-all-exist")
	} else {
		verif.Assert(rec.status == 207, "get-status-207-when-some-missing")
		for i := 0; i < n; i++ {
			ent, _ := arr[i].(map[string]interface{})
			_, hasStatus := ent["status"]
			verif.Assert(hasStatus, "get-207-every-entry-has-a-status")
			if w.refLookup(aids[i], iids[i]) != nil {
				verif.Assert(zzNumEq(ent["status"], 0), "get-207-success-entries-have-status-0")
			}
		}
	}
	verif.Reach("end")
}

// zzPutScenario: PUT /characteristics with one or two entries addressed to symbolic ids,
// a value of the target's type inside its bounds (or none) and an "ev" member that is
// absent / true / false / not a boolean. focus selects which property's assertions are made.
func zzPutScenario(focus string, k int) {
	w := newWorld()
	_, sess := w.connect("10.0.0.2:5000", true)
	_, other := w.connect("10.0.0.3:5000", true)
	remote := "10.0.0.2:5000"
	targets := []*characteristic.Characteristic{w.bright.Characteristic, w.on.Characteristic, w.name.Characteristic, w.wo, nil}
	var cbBright []int
	var cbOn []bool
	w.bright.OnValueRemoteUpdate(func(v int) { cbBright = append(cbBright, v) })
	w.on.OnValueRemoteUpdate(func(v bool) { cbOn = append(cbOn, v) })
	localCalls := 0
	w.bright.OnValueUpdate(func(c *characteristic.Characteristic, n, o interface{}) { localCalls++ })

	n := 1 + verif.Choice("entries", k)
	var ents []interface{}
	type exp struct {
		c         *characteristic.Characteristic
		hasValue  bool
		num       int
		b         bool
		ev        int // 0 absent, 1 true, 2 false, 3 non-bool
		subBefore bool
	}
	exps := make([]exp, n)
	for i := 0; i < n; i++ {
		id := string(rune('0' + i))
		t := targets[verif.Choice("target"+id, len(targets))]
		e := exp{c: t}
		ent := map[string]interface{}{}
		if t == nil {
			ent["aid"] = uint64(verif.U8("bad-aid" + id))
			ent["iid"] = uint64(verif.U8("bad-iid" + id))
			verif.Assume(w.refLookup(ent["aid"].(uint64), ent["iid"].(uint64)) == nil)
		} else {
			ent["aid"] = w.acc.ID
			ent["iid"] = t.ID
		}
		if verif.Choice("has-value"+id, 2) == 1 {
			e.hasValue = true
			switch t {
			case w.on.Characteristic:
				e.b = verif.Bool("val-bool" + id)
				ent["value"] = e.b
				if verif.Choice("bool-as-number"+id, 2) == 1 {
					// HAP allows 1 / 0 for a bool
					if e.b {
						ent["value"] = float64(1)
					} else {
						ent["value"] = float64(0)
					}
				}
			default:
				e.num = int(verif.U8("val-num" + id))
				verif.Assume(e.num <= 100)
				ent["value"] = float64(e.num)
			}
		}
		e.ev = verif.Choice("ev"+id, 4)
		switch e.ev {
		case 1:
			ent["ev"] = true
		case 2:
			ent["ev"] = false
		case 3:
			ent["ev"] = "yes"
		}
		if t != nil {
			if verif.Choice("subscribed-before"+id, 2) == 1 {
				sess.Subscribe(t)
				e.subBefore = true
			}
		}
		exps[i] = e
		ents = append(ents, ent)
	}
	if n == 2 {
		verif.Assume(exps[0].c != exps[1].c || exps[0].c == nil) // distinct targets
	}
	oldBright, oldOn := w.bright.GetValue(), w.on.GetValue()
	oldName := w.name.GetValue()
	body, _ := json.Marshal(map[string]interface{}{"characteristics": ents})
	rec := newRecorder()
	// the request body arrives in one piece or in small pieces (several frames / segments)
	zzBodyChunk = []int{0, 3}[verif.Choice("body-delivery", 2)]
	defer func() { zzBodyChunk = 0 }()
	p := verif.Panics(func() {
		verif.MuxHandler(w.srv.Mux, "/characteristics").ServeHTTP(rec, zzRequest("PUT", "/characteristics", remote, nil, body))
	})
	verif.Assert(!p, "nopanic-put")
	if p {
		return
	}
	failing := 0
	for _, e := range exps {
		if e.c == nil {
			continue
		}
		observable := e.c.IsObservable()
		if e.ev != 0 && !observable {
			failing++
		}
		switch focus {
		case "C09":
			if e.hasValue {
				switch e.c {
				case w.bright.Characteristic:
					verif.Assert(w.bright.GetValue() == e.num, "put-written-value-is-what-the-getter-returns")
					if e.num != oldBright {
						verif.Assert(len(cbBright) == 1 && cbBright[0] == e.num, "put-callback-receives-written-value")
					} else {
						verif.Assert(len(cbBright) == 0, "put-unchanged-value-no-callback")
					}
					verif.Assert(localCalls == 0, "put-remote-write-does-not-call-local-callbacks")
				case w.on.Characteristic:
					verif.Assert(w.on.GetValue() == e.b, "put-written-bool-is-what-the-getter-returns")
					if e.b != oldOn {
						verif.Assert(len(cbOn) == 1 && cbOn[0] == e.b, "put-bool-callback-receives-written-value")
					}
				case w.name.Characteristic:
					verif.Assert(w.name.GetValue() == oldName, "put-read-only-unchanged")
				case w.wo:
					verif.Assert(w.wo.Value == nil, "put-write-only-stores-nothing")
				}
			}
		case "C10", "C11":
			want := e.subBefore
			if observable {
				switch e.ev {
				case 1:
					want = true
				case 2:
					want = false
				}
			}
			if focus == "C10" {
				verif.Assert(sess.IsSubscribedTo(e.c) == want, "put-ev-maps-to-subscribe-unsubscribe-nothing")
				verif.Assert(!other.IsSubscribedTo(e.c), "put-ev-touches-only-the-requesting-session")
			} else if !observable && e.ev != 0 {
				verif.Assert(sess.IsSubscribedTo(e.c) == e.subBefore, "no-ev-permission-never-subscribes")
			}
		}
	}
	// characteristics that were not addressed keep their subscription state
	addressed := map[*characteristic.Characteristic]bool{}
	for _, e := range exps {
		if e.c != nil {
			addressed[e.c] = true
		}
	}
	if focus == "C10" {
		for _, t := range targets {
			if t != nil && !addressed[t] {
				verif.Assert(!sess.IsSubscribedTo(t), "put-unaddressed-subscriptions-untouched")
			}
		}
	}
	// response: 204 when nothing failed, otherwise exactly the failing entries with -70406
	if failing == 0 {
		verif.Assert(rec.status == 204 && len(rec.body) == 0, "put-204-when-nothing-failed")
	} else {
		docs := rec.docs()
		verif.Assert(len(docs) == 1, "put-error-document")
		if len(docs) == 1 {
			top, _ := docs[0].(map[string]interface{})
			arr, _ := top["characteristics"].([]interface{})
			verif.Assert(len(arr) == failing, "put-response-lists-exactly-the-failing-entries")
			for _, x := range arr {
				ent, _ := x.(map[string]interface{})
				verif.Assert(zzNumEq(ent["status"], float64(hap.StatusNotificationNotSupported)), "no-ev-permission-answered-with-status")
			}
		}
	}
	verif.Reach("end")
}
