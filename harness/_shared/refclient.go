//hcverif:pkg hap/endpoint
package endpoint

// Reference controller written from the HAP specification (pair-setup with SRP-6a /
// SHA-512 / 3072-bit group, pair-verify with X25519 / Ed25519, HKDF-SHA-512 labels,
// ChaCha20-Poly1305 nonces). It does not use hc's client code. The SRP big-number
// mathematics runs natively with math/big; under the symbolic engine the same steps are
// the ideal functions of models/srp.go.

import (
	"crypto/sha512"
	"io"
	"math/big"

	xchacha "golang.org/x/crypto/chacha20poly1305"
	xhkdf "golang.org/x/crypto/hkdf"

	"github.com/tadglines/go-pkgs/crypto/srp"

	"hcverif/models"
	"hcverif/verif"
)

func rcHash(parts ...[]byte) []byte {
	h := sha512.New()
	for _, p := range parts {
		h.Write(p)
	}
	return h.Sum(nil)
}

// x = H(s | H(I ":" P))
func rcX(salt []byte, pin string) []byte {
	return rcHash(salt, rcHash([]byte("Pair-Setup"), []byte(":"), []byte(pin)))
}

type rcSRP struct {
	a, A, S, K, M1 []byte
}

func rcGroup() (N, g *big.Int) {
	s, _ := srp.NewSRP("rfc5054.3072", sha512.New, nil)
	return s.Group.Prime, s.Group.Generator
}

func rcPad(b []byte) []byte {
	if len(b) >= 384 {
		return b
	}
	return append(make([]byte, 384-len(b)), b...)
}

// rcSRPClient runs the client side of SRP-6a for the given salt and server public key.
func rcSRPClient(aSeed []byte, pin string, salt, B []byte) *rcSRP {
	c := &rcSRP{a: aSeed}
	x := rcX(salt, pin)
	if verif.IsSymbolic() {
		c.A = models.SRPClientPublic(aSeed)
		c.S = models.SRPClientPremaster(B, c.A, x)
		c.K = rcHash(c.S)
		c.M1 = models.SRPClientM1([]byte("Pair-Setup"), salt, c.A, B, c.K)
		return c
	}
	N, g := rcGroup()
	a := new(big.Int).SetBytes(aSeed)
	A := new(big.Int).Exp(g, a, N)
	c.A = A.Bytes()
	Bn := new(big.Int).SetBytes(B)
	k := new(big.Int).SetBytes(rcHash(N.Bytes(), rcPad(g.Bytes())))
	u := new(big.Int).SetBytes(rcHash(rcPad(c.A), rcPad(B)))
	xn := new(big.Int).SetBytes(x)
	// S = (B - k g^x)^(a + u x) mod N
	t := new(big.Int).Exp(g, xn, N)
	t.Mul(k, t)
	t.Sub(Bn, t)
	t.Mod(t, N)
	e := new(big.Int).Mul(u, xn)
	e.Add(a, e)
	S := new(big.Int).Exp(t, e, N)
	c.S = S.Bytes()
	c.K = rcHash(c.S)
	// M1 = H(H(N) xor H(g) | H(I) | s | A | B | K)
	hn := new(big.Int).SetBytes(rcHash(N.Bytes()))
	hg := new(big.Int).SetBytes(rcHash(g.Bytes()))
	hng := hn.Xor(hn, hg)
	c.M1 = rcHash(hng.Bytes(), rcHash([]byte("Pair-Setup")), salt, c.A, B, c.K)
	return c
}

// rcM2 is the server proof the client expects: H(A | M1 | K).
func rcM2(c *rcSRP) []byte {
	if verif.IsSymbolic() {
		return models.SRPServerM2(c.A, c.M1, c.K)
	}
	return rcHash(c.A, c.M1, c.K)
}

// rcM1 is the client proof M1 = H(H(N) xor H(g) | H(I) | s | A | B | K) for values the
// caller knows (A as the minimal big-endian encoding the server hashes).
func rcM1(salt, A, B, K []byte) []byte {
	if verif.IsSymbolic() {
		return models.SRPClientM1([]byte("Pair-Setup"), salt, A, B, K)
	}
	N, g := rcGroup()
	hn := new(big.Int).SetBytes(rcHash(N.Bytes()))
	hg := new(big.Int).SetBytes(rcHash(g.Bytes()))
	hng := hn.Xor(hn, hg)
	An := new(big.Int).SetBytes(A).Bytes()
	Bn := new(big.Int).SetBytes(B).Bytes()
	return rcHash(hng.Bytes(), rcHash([]byte("Pair-Setup")), salt, An, Bn, K)
}

func rcHKDF(secret []byte, salt, info string) []byte {
	r := xhkdf.New(sha512.New, secret, []byte(salt), []byte(info))
	k := make([]byte, 32)
	io.ReadFull(r, k)
	return k
}

func rcNonce(label string) []byte { return append(make([]byte, 4), []byte(label)...) }

func rcSeal(key []byte, label string, pt []byte) []byte {
	a, _ := xchacha.New(key)
	return a.Seal(nil, rcNonce(label), pt, nil)
}

func rcOpen(key []byte, label string, ct []byte) ([]byte, bool) {
	a, _ := xchacha.New(key)
	pt, err := a.Open(nil, rcNonce(label), ct, nil)
	return pt, err == nil
}
