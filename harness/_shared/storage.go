//hcverif:pkg util
package util

import (
	"io/ioutil"
	"path/filepath"

	"hcverif/verif"
)

// ssKey returns a storage key: one symbolic lower-case letter, with or without ".e".
func ssKey(tag string) string {
	c := verif.U8(tag + "-char")
	verif.Assume(c >= 'a' && c <= 'z')
	k := string([]byte{c})
	if verif.Choice(tag+"-suffix", 2) == 1 {
		k += ".e"
	}
	return k
}

func ssVal(tag string, max int) []byte {
	return verif.Bytes(tag, verif.Choice(tag+"-len", max+1))
}

// ssPre puts a file into the directory behind the storage's back (arbitrary pre-state).
func ssPre(dir, key string, val []byte) {
	if err := ioutil.WriteFile(filepath.Join(dir, key), val, 0644); err != nil {
		panic(err)
	}
}
