//hcverif:pkg characteristic
package characteristic

import (
	"hcverif/verif"
)

// vvPick selects one constructor of the generated table (every constructor is explored) and
// returns a fresh object, or nil if the constructor panics (reported by C15).
func vvPick() (*Characteristic, string) {
	e := zzCharCtors[verif.Choice("constructor", len(zzCharCtors))]
	var c *Characteristic
	if verif.Panics(func() { c = e.Make() }) {
		return nil, e.Name
	}
	verif.Fact("constructor", e.Name)
	return c, e.Name
}

func vvIsInt(f string) bool {
	switch f {
	case FormatUInt8, FormatUInt16, FormatUInt32, FormatInt32, FormatUInt64:
		return true
	}
	return false
}

// vvIntRange is the range of valid values of an integer characteristic: its declared
// bounds, else the range of its format (capped at 2^53, what a JSON number carries exactly).
func vvIntRange(c *Characteristic) (lo, hi int) {
	switch c.Format {
	case FormatUInt8:
		lo, hi = 0, 255
	case FormatUInt16:
		lo, hi = 0, 65535
	case FormatUInt32:
		lo, hi = 0, 1<<32-1
	case FormatInt32:
		lo, hi = -(1 << 31), 1<<31-1
	default:
		lo, hi = 0, 1<<53
	}
	if v, ok := c.MinValue.(int); ok {
		lo = v
	}
	if v, ok := c.MaxValue.(int); ok {
		hi = v
	}
	return
}

func vvHas(c *Characteristic, p string) bool {
	for _, q := range c.Perms {
		if q == p {
			return true
		}
	}
	return false
}
