//hcverif:pkg hap/endpoint
package endpoint

// Shared world for the protocol harnesses (C02, C03, C04, C13): real endpoints, real
// controllers, real context/session/connection; harness objects for the database, the
// device identity, the socket and the ResponseWriter.

import (
	"bytes"
	"crypto/ed25519"
	"io"
	"io/ioutil"
	"net"
	"net/http"
	"net/url"
	"time"

	"github.com/brutella/hc/db"
	"github.com/brutella/hc/event"
	"github.com/brutella/hc/hap"
	"github.com/brutella/hc/hap/pair"
	"github.com/brutella/hc/util"

	"hcverif/verif"
)

type eeAddr string

func (a eeAddr) Network() string { return "tcp" }
func (a eeAddr) String() string  { return string(a) }

type eeConn struct {
	addr    eeAddr
	written [][]byte
	in      []byte // bytes the peer has sent and the accessory has not read yet
}

type eeTimeout struct{}

func (eeTimeout) Error() string   { return "i/o timeout" }
func (eeTimeout) Timeout() bool   { return true }
func (eeTimeout) Temporary() bool { return true }

// Read delivers what the peer sent; when nothing is pending the read times out (the peer
// stays connected).
func (c *eeConn) Read(b []byte) (int, error) {
	if len(c.in) == 0 {
		return 0, eeTimeout{}
	}
	n := copy(b, c.in)
	c.in = c.in[n:]
	return n, nil
}
func (c *eeConn) Write(b []byte) (int, error) {
	c.written = append(c.written, append([]byte{}, b...))
	return len(b), nil
}
func (c *eeConn) Close() error                       { return nil }
func (c *eeConn) LocalAddr() net.Addr                { return eeAddr("127.0.0.1:1") }
func (c *eeConn) RemoteAddr() net.Addr               { return c.addr }
func (c *eeConn) SetDeadline(t time.Time) error      { return nil }
func (c *eeConn) SetReadDeadline(t time.Time) error  { return nil }
func (c *eeConn) SetWriteDeadline(t time.Time) error { return nil }

type eeDevice struct {
	name      string
	pub, priv []byte
	pin       string
}

func (d *eeDevice) Name() string       { return d.name }
func (d *eeDevice) PrivateKey() []byte { return d.priv }
func (d *eeDevice) PublicKey() []byte  { return d.pub }
func (d *eeDevice) Pin() string        { return d.pin }

type eeErr string

func (e eeErr) Error() string { return string(e) }

// eeDB is an in-memory db.Database recording mutations.
type eeDB struct {
	names   []string
	ents    []db.Entity
	saves   int
	deletes int
	saved   []db.Entity
}

func (d *eeDB) find(name string) int {
	for i, n := range d.names {
		if n == name {
			return i
		}
	}
	return -1
}
func (d *eeDB) EntityWithName(name string) (db.Entity, error) {
	if i := d.find(name); i >= 0 {
		return d.ents[i], nil
	}
	return db.Entity{}, eeErr("not found")
}
func (d *eeDB) SaveEntity(e db.Entity) error {
	d.saves++
	d.saved = append(d.saved, e)
	if i := d.find(e.Name); i >= 0 {
		d.ents[i] = e
		return nil
	}
	d.names = append(d.names, e.Name)
	d.ents = append(d.ents, e)
	return nil
}
func (d *eeDB) DeleteEntity(e db.Entity) {
	d.deletes++
	if i := d.find(e.Name); i >= 0 {
		d.names = append(d.names[:i], d.names[i+1:]...)
		d.ents = append(d.ents[:i], d.ents[i+1:]...)
	}
}
func (d *eeDB) Entities() ([]db.Entity, error) { return append([]db.Entity{}, d.ents...), nil }

type eeRecorder struct {
	hdr    http.Header
	status int
	body   []byte
}

func eeNewRecorder() *eeRecorder          { return &eeRecorder{hdr: http.Header{}} }
func (r *eeRecorder) Header() http.Header { return r.hdr }
func (r *eeRecorder) WriteHeader(code int) {
	if r.status == 0 {
		r.status = code
	}
}
func (r *eeRecorder) Write(b []byte) (int, error) {
	if r.status == 0 {
		r.status = 200
	}
	r.body = append(r.body, b...)
	return len(b), nil
}

// tlv parses the response body (nil if it is not TLV8).
func (r *eeRecorder) tlv() util.Container {
	c, err := util.NewTLV8ContainerFromReader(bytes.NewBuffer(append([]byte{}, r.body...)))
	if err != nil {
		return nil
	}
	return c
}

type eeWorld struct {
	ctx      hap.Context
	db       *eeDB
	dev      *eeDevice
	setup    *PairSetup
	verify   *PairVerify
	emitted  []interface{}
	accPub   ed25519.PublicKey
	accPriv  ed25519.PrivateKey
	lastConn *hap.Connection
}

func (w *eeWorld) Handle(ev interface{}) { w.emitted = append(w.emitted, ev) }

const eePin = "031-45-154"

func eeNewWorld() *eeWorld {
	w := &eeWorld{}
	w.accPub, w.accPriv, _ = ed25519.GenerateKey(nil)
	w.dev = &eeDevice{name: "AC:CE:55:00:00:01", pub: w.accPub, priv: w.accPriv, pin: eePin}
	w.db = &eeDB{}
	// the accessory's own entity is stored in the database, as hap.NewDevice does
	w.db.names = append(w.db.names, w.dev.name)
	w.db.ents = append(w.db.ents, db.NewEntity(w.dev.name, w.accPub, w.accPriv))
	w.ctx = hap.NewContextForSecuredDevice(w.dev)
	em := event.NewEmitter()
	em.AddListener(w)
	w.setup = NewPairSetup(w.ctx, w.dev, w.db, em)
	w.verify = NewPairVerify(w.ctx, w.db)
	return w
}

func (w *eeWorld) connect(addr string) (*eeConn, hap.Session) {
	c := &eeConn{addr: eeAddr(addr)}
	w.lastConn = hap.NewConnection(c, w.ctx)
	return c, w.ctx.GetSessionForConnection(c)
}

// eeBodySplit > 0 delivers request bodies in two pieces, the first of that many bytes (a body
// that arrives in two network segments or frames); 0 delivers them in one Read.
var eeBodySplit int

type eeSplitBody struct {
	parts [][]byte
}

func (b *eeSplitBody) Read(p []byte) (int, error) {
	for len(b.parts) > 0 && len(b.parts[0]) == 0 {
		b.parts = b.parts[1:]
	}
	if len(b.parts) == 0 {
		return 0, io.EOF
	}
	n := copy(p, b.parts[0])
	b.parts[0] = b.parts[0][n:]
	return n, nil
}
func (b *eeSplitBody) Close() error { return nil }

func eeRequest(path, remote string, body []byte) *http.Request {
	r := &http.Request{Method: "POST", URL: &url.URL{Path: path}, RemoteAddr: remote,
		Body: ioutil.NopCloser(bytes.NewBuffer(body)), Header: http.Header{}, ContentLength: int64(len(body))}
	if eeBodySplit > 0 && eeBodySplit < len(body) {
		r.Body = &eeSplitBody{parts: [][]byte{append([]byte{}, body[:eeBodySplit]...), append([]byte{}, body[eeBodySplit:]...)}}
	}
	return r
}

// post sends one request to a handler and returns the recorder and whether it panicked.
func eePost(h http.Handler, path, remote string, body []byte) (*eeRecorder, bool) {
	rec := eeNewRecorder()
	p := verif.Panics(func() { h.ServeHTTP(rec, eeRequest(path, remote, body)) })
	return rec, p
}

func eeTLV(items ...interface{}) []byte {
	c := util.NewTLV8Container()
	for i := 0; i+1 < len(items); i += 2 {
		tag := items[i].(int)
		switch v := items[i+1].(type) {
		case byte:
			c.SetByte(uint8(tag), v)
		case []byte:
			c.SetBytes(uint8(tag), v)
		case string:
			c.SetString(uint8(tag), v)
		}
	}
	return c.BytesBuffer().Bytes()
}

var _ = pair.TagSequence
