//hcverif:pkg hap
package hap

import (
	"io"
	"net"

	"github.com/brutella/hc/crypto"
	"github.com/brutella/hc/crypto/chacha20poly1305"
	"github.com/brutella/hc/crypto/hkdf"

	"hcverif/verif"
)

// A peer that seals its frames by hand and also sends frames WITHOUT data (length 0, a
// valid tag): well-formed frames that Encrypt never produces. 2..4 frames with 0, 1 or 3
// data bytes each, delivered in one or two network segments; the caller reads with a
// buffer that fits exactly, is smaller, or is large. No byte is lost, no end of stream and
// no error other than an idle timeout is reported.
func Harness_C07_q_empty_frames() {
	var secret [32]byte
	copy(secret[:], verif.Bytes("secret", 32))
	accSess, _ := crypto.NewSecureSessionFromSharedKey(secret)
	key, _ := hkdf.Sha512(secret[:], []byte("Control-Salt"), []byte("Control-Write-Encryption-Key"))
	k := 2 + verif.Choice("frames", 3)
	lens := []int{0, 1, 3}
	var plain, stream []byte
	var ends []int
	for i := 0; i < k; i++ {
		id := string(rune('0' + i))
		n := lens[verif.Choice("flen"+id, len(lens))]
		d := verif.Bytes("d"+id, n)
		nonce := []byte{byte(i), 0, 0, 0, 0, 0, 0, 0}
		ad := []byte{byte(n), 0}
		ct, tag, err := chacha20poly1305.EncryptAndSeal(key[:], nonce, d, ad)
		if err != nil {
			return
		}
		stream = append(stream, ad...)
		stream = append(stream, ct...)
		stream = append(stream, tag[:]...)
		plain = append(plain, d...)
		ends = append(ends, len(stream))
	}
	conn := &rrConn{}
	if verif.Choice("segments", 2) == 1 {
		cut := ends[verif.Choice("cut-after-frame", k-1)]
		conn.segs = [][]byte{append([]byte{}, stream[:cut]...), append([]byte{}, stream[cut:]...)}
		conn.idle = []bool{false, verif.Choice("idle", 2) == 1}
	} else {
		conn.segs = [][]byte{append([]byte{}, stream...)}
		conn.idle = []bool{false}
	}
	verif.MakeCap(len(stream))
	ctx := NewContextForSecuredDevice(rrDevice{})
	hc := NewConnection(conn, ctx)
	s := ctx.GetSessionForConnection(conn)
	s.SetCryptographer(accSess)
	size := []int{1, 3, 4096}[verif.Choice("buffer", 3)]
	var got []byte
	for call := 0; call < len(plain)+2*k+6; call++ {
		buf := make([]byte, size)
		n, err := hc.Read(buf)
		got = append(got, buf[:n]...)
		if err != nil {
			ne, isNet := err.(net.Error)
			verif.Assert(err != io.EOF, "no-end-of-stream-while-peer-connected")
			verif.Assert(isNet && ne.Timeout(), "no-decryption-error-on-well-formed-frames")
			if !(isNet && ne.Timeout()) {
				return
			}
			if conn.cur >= len(conn.segs) {
				break
			}
		}
		verif.Assert(len(got) <= len(plain) && verif.Eq(got, plain[:len(got)]), "returned-bytes-are-a-prefix-of-what-was-sent")
	}
	verif.Assert(!conn.closed, "connection-not-closed")
	verif.Assert(len(got) == len(plain) && verif.Eq(got, plain), "no-byte-lost-after-everything-arrived")
	verif.Reach("end")
}
