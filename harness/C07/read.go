//hcverif:pkg hap
package hap

import (
	"bytes"
	"io"
	"io/ioutil"
	"net"
	"time"

	"github.com/brutella/hc/crypto"

	"hcverif/verif"
)

type rrAddr string

func (a rrAddr) Network() string { return "tcp" }
func (a rrAddr) String() string  { return string(a) }

type rrTimeout struct{}

func (rrTimeout) Error() string   { return "i/o timeout" }
func (rrTimeout) Timeout() bool   { return true }
func (rrTimeout) Temporary() bool { return true }

// rrConn delivers a byte stream in segments: a Read returns at most the rest of the current
// segment; when nothing is available (between segments when an idle period was chosen, and
// after the last segment) it returns a timeout error. It never returns io.EOF: the peer
// stays connected.
type rrConn struct {
	segs   [][]byte
	idle   []bool // idle[i]: one timeout before segment i becomes available
	cur    int
	closed bool
}

func (c *rrConn) Read(b []byte) (int, error) {
	for c.cur < len(c.segs) && len(c.segs[c.cur]) == 0 {
		c.cur++
	}
	if c.cur >= len(c.segs) {
		return 0, rrTimeout{}
	}
	if c.idle[c.cur] {
		c.idle[c.cur] = false
		return 0, rrTimeout{}
	}
	n := copy(b, c.segs[c.cur])
	c.segs[c.cur] = c.segs[c.cur][n:]
	return n, nil
}
func (c *rrConn) Write(b []byte) (int, error)        { return len(b), nil }
func (c *rrConn) Close() error                       { c.closed = true; return nil }
func (c *rrConn) LocalAddr() net.Addr                { return rrAddr("127.0.0.1:1") }
func (c *rrConn) RemoteAddr() net.Addr               { return rrAddr("10.0.0.2:5000") }
func (c *rrConn) SetDeadline(t time.Time) error      { return nil }
func (c *rrConn) SetReadDeadline(t time.Time) error  { return nil }
func (c *rrConn) SetWriteDeadline(t time.Time) error { return nil }

type rrDevice struct{}

func (rrDevice) Name() string       { return "acc" }
func (rrDevice) PrivateKey() []byte { return make([]byte, 64) }
func (rrDevice) PublicKey() []byte  { return make([]byte, 32) }
func (rrDevice) Pin() string        { return "001-02-003" }

// c07Run: the peer sends messages (each one Encrypt call = a run of frames); the network
// cuts the ciphertext stream into segments at symbolic positions, possibly with idle
// periods in between; the caller reads with symbolic buffer sizes until an idle timeout
// after everything has been delivered.
func c07Run(msgLens []int, maxMsgs, anyCuts, windowCuts int, bufs []int) {
	maxCuts := anyCuts + windowCuts
	var secret [32]byte
	copy(secret[:], verif.Bytes("secret", 32))
	accSess, _ := crypto.NewSecureSessionFromSharedKey(secret)
	ctl, _ := crypto.NewSecureClientSessionFromSharedKey(secret)
	k := 1 + verif.Choice("messages", maxMsgs)
	var plain, stream []byte
	var bounds []int // frame-field boundaries in the stream (for the cut window)
	for i := 0; i < k; i++ {
		id := string(rune('0' + i))
		n := msgLens[verif.Choice("mlen"+id, len(msgLens))]
		m := verif.Bytes("m"+id, n)
		plain = append(plain, m...)
		r, _ := ctl.Encrypt(bytes.NewBuffer(append([]byte{}, m...)))
		w, _ := ioutil.ReadAll(r)
		// boundaries: after the length field, after the ciphertext, after the tag
		off := len(stream)
		for rest := n; rest > 0; {
			f := rest
			if f > 1024 {
				f = 1024
			}
			bounds = append(bounds, off+2, off+2+f, off+2+f+16)
			off += 2 + f + 16
			rest -= f
		}
		stream = append(stream, w...)
	}
	// segmentation
	ncuts := verif.Choice("cuts", maxCuts+1)
	cuts := make([]int, 0, ncuts)
	last := 0
	for i := 0; i < ncuts; i++ {
		id := string(rune('0' + i))
		var pos int
		if i >= anyCuts {
			// cut positions within +-1 of a frame-field boundary
			b := bounds[verif.Choice("cutb"+id, len(bounds))]
			pos = b + verif.Choice("cutd"+id, 3) - 1
		} else {
			pos = verif.Choice("cut"+id, len(stream)+1)
		}
		verif.Assume(pos >= last && pos <= len(stream))
		cuts = append(cuts, pos)
		last = pos
	}
	conn := &rrConn{}
	prev := 0
	for i, c := range append(cuts, len(stream)) {
		conn.segs = append(conn.segs, append([]byte{}, stream[prev:c]...))
		idle := false
		if i > 0 && verif.Choice("idle"+string(rune('0'+i)), 2) == 1 {
			idle = true
		}
		conn.idle = append(conn.idle, idle)
		prev = c
	}
	verif.MakeCap(len(stream))
	ctx := NewContextForSecuredDevice(rrDevice{})
	hc := NewConnection(conn, ctx)
	s := ctx.GetSessionForConnection(conn)
	s.SetCryptographer(accSess)

	var got []byte
	timeouts := 0
	maxCalls := len(plain) + 2*(ncuts+1) + 4
	// caller buffer sizes: one size for all calls, or alternating between the two extremes
	pattern := verif.Choice("buffer-pattern", len(bufs)+1)
	for call := 0; call < maxCalls; call++ {
		size := bufs[call%len(bufs)]
		if pattern < len(bufs) {
			size = bufs[pattern]
		}
		buf := make([]byte, size)
		n, err := hc.Read(buf)
		got = append(got, buf[:n]...)
		if err != nil {
			ne, isNet := err.(net.Error)
			verif.Assert(err != io.EOF, "no-end-of-stream-while-peer-connected")
			verif.Assert(isNet && ne.Timeout(), "no-decryption-error-on-well-formed-frames")
			if !(isNet && ne.Timeout()) {
				return
			}
			timeouts++
			// everything has been delivered by the network once all segments are consumed
			if conn.cur >= len(conn.segs) {
				break
			}
		}
		verif.Assert(len(got) <= len(plain) && verif.Eq(got, plain[:len(got)]), "returned-bytes-are-a-prefix-of-what-was-sent")
	}
	verif.Assert(!conn.closed, "connection-not-closed")
	verif.Assert(len(got) == len(plain) && verif.Eq(got, plain), "no-byte-lost-after-everything-arrived")
	verif.Reach("end")
}

func Harness_C07_q_small_messages() {
	c07Run([]int{1, 2}, 2, 1, 1, []int{1, 4096})
}

func Harness_C07_q_frame_size_boundary() {
	c07Run([]int{1023, 1024, 1025}, 1, 0, 1, []int{4096})
}

func Harness_C07_t_two_big_messages() {
	c07Run([]int{1, 1024, 1025}, 2, 0, 2, []int{1, 4096})
}

func Harness_C07_t_small_messages_any_cuts() {
	c07Run([]int{0, 1, 2, 3}, 2, 2, 1, []int{1, 2, 4096})
}

// A short or full-size frame followed by a full-size one, one network cut within one byte of
// a frame-field boundary (in particular: a segment that carries the end of the first frame
// and the first bytes - but not all - of the second, so that the reader has to shift its
// buffer while a frame is half received).
func Harness_C07_q_frame_then_full_frame() {
	c07Run([]int{1, 1024}, 2, 0, 1, []int{4096})
}
