//hcverif:pkg hap
package hap

import (
	"bytes"
	"io"
	"io/ioutil"
	"net"
	"sync"
	"time"

	"github.com/brutella/hc/crypto"

	"hcverif/verif"
)

type wwAddr string

func (a wwAddr) Network() string { return "tcp" }
func (a wwAddr) String() string  { return string(a) }

// wwConn captures what reaches the socket, in arrival order. Its Write is a scheduling
// point: the bytes reach the socket some time after the caller sealed them. Natively the
// very first Write call is held back until another Write has completed (or 100 ms), which
// reproduces the interleaving the engine finds.
type wwConn struct {
	written [][]byte

	mu       sync.Mutex
	seen     int
	sealed   int
	released chan struct{}
}

func (c *wwConn) Write(b []byte) (int, error) {
	verif.Yield()
	if !verif.IsSymbolic() {
		c.mu.Lock()
		first := c.seen == 0
		c.seen++
		c.mu.Unlock()
		if first {
			select {
			case <-c.released:
			case <-time.After(60 * time.Millisecond):
			}
		}
		c.mu.Lock()
		c.written = append(c.written, append([]byte{}, b...))
		c.mu.Unlock()
		select {
		case c.released <- struct{}{}:
		default:
		}
		return len(b), nil
	}
	c.written = append(c.written, append([]byte{}, b...))
	return len(b), nil
}

// wwCrypt wraps the real secure session: after sealing it is a scheduling point, and
// natively the first goroutine that has sealed is held back until another write reached the
// socket (or 60 ms), so that "sealed first, written last" is reproducible.
type wwCrypt struct {
	crypto.Cryptographer
	c *wwConn
}

func (w wwCrypt) Encrypt(r io.Reader) (io.Reader, error) {
	out, err := w.Cryptographer.Encrypt(r)
	verif.Yield()
	if !verif.IsSymbolic() {
		w.c.mu.Lock()
		first := w.c.sealed == 0
		w.c.sealed++
		w.c.mu.Unlock()
		if first {
			select {
			case <-w.c.released:
			case <-time.After(60 * time.Millisecond):
			}
		}
	}
	return out, err
}
func (c *wwConn) Read(b []byte) (int, error)         { return 0, nil }
func (c *wwConn) Close() error                       { return nil }
func (c *wwConn) LocalAddr() net.Addr                { return wwAddr("127.0.0.1:1") }
func (c *wwConn) RemoteAddr() net.Addr               { return wwAddr("10.0.0.2:5000") }
func (c *wwConn) SetDeadline(t time.Time) error      { return nil }
func (c *wwConn) SetReadDeadline(t time.Time) error  { return nil }
func (c *wwConn) SetWriteDeadline(t time.Time) error { return nil }

type wwDevice struct{}

func (wwDevice) Name() string       { return "acc" }
func (wwDevice) PrivateKey() []byte { return make([]byte, 64) }
func (wwDevice) PublicKey() []byte  { return make([]byte, 32) }
func (wwDevice) Pin() string        { return "001-02-003" }

// N goroutines write to the same verified connection at the same time. For every schedule
// (context switches at mutex operations, at the socket write and at every access of the
// frame counter, bounded number of preemptions) the peer decrypts every frame in the order
// it arrives and each payload comes out intact and contiguous.
func c08Run(n int, lens []int, preemptions int, keepAlive bool) {
	verif.Preemptions(preemptions)
	verif.WatchField("encryptCount")
	var secret [32]byte
	copy(secret[:], verif.Bytes("secret", 32))
	accSess, _ := crypto.NewSecureSessionFromSharedKey(secret)
	peer, _ := crypto.NewSecureClientSessionFromSharedKey(secret)
	conn := &wwConn{released: make(chan struct{}, 4)}
	ctx := NewContextForSecuredDevice(wwDevice{})
	hc := NewConnection(conn, ctx)
	s := ctx.GetSessionForConnection(conn)
	s.SetCryptographer(wwCrypt{accSess, conn})
	s.Decrypter()

	payloads := make([][]byte, n)
	for i := range payloads {
		id := string(rune('0' + i))
		payloads[i] = verif.Bytes("p"+id, lens[verif.Choice("len"+id, len(lens))])
		// the two top bits of every byte name the writer (the other six are arbitrary), so that
		// bytes of different writers mixed into one message are recognised under every
		// interleaving, also one the native replay happens to take instead of the engine's
		for j := range payloads[i] {
			payloads[i][j] = payloads[i][j]&0x3F | byte(i+4-n)<<6 // (two writers: tags 2 and 3, so that the ASCII keep-alive is no writer's)
		}
	}
	var wg sync.WaitGroup
	wg.Add(n)
	if keepAlive {
		// a keep-alive tick is a third writer: an empty notification to every active connection
		var kb bytes.Buffer
		NewNotification(new(bytes.Buffer)).Write(&kb)
		payloads = append(payloads, FixProtocolSpecifier(kb.Bytes()))
		ka := NewKeepAlive(0, ctx)
		wg.Add(1)
		go func() {
			defer wg.Done()
			verif.Assert(!verif.Panics(func() { ka.sendKeepAlive() }), "nopanic-keep-alive")
		}()
	}
	// natively the writers are started longest payload first, a few milliseconds apart, so
	// that "a multi-frame writer is under way when a short one arrives" is the typical native
	// interleaving; the engine explores every schedule regardless of the start order
	order := make([]int, n)
	for i := range order {
		order[i] = i
	}
	if !verif.IsSymbolic() {
		for i := 1; i < n; i++ {
			for j := i; j > 0 && len(payloads[order[j]]) > len(payloads[order[j-1]]); j-- {
				order[j], order[j-1] = order[j-1], order[j]
			}
		}
	}
	for k := 0; k < n; k++ {
		p := payloads[order[k]]
		go func() {
			defer wg.Done()
			verif.Assert(!verif.Panics(func() { hc.Write(p) }), "nopanic-concurrent-write")
		}()
		if !verif.IsSymbolic() {
			time.Sleep(3 * time.Millisecond)
		}
	}
	wg.Wait()
	verif.Trace("schedule " + verif.Schedule())

	var stream []byte
	for _, w := range conn.written {
		stream = append(stream, w...)
	}
	buf := bytes.NewBuffer(stream)
	var got [][]byte
	for buf.Len() > 0 {
		r, err := peer.Decrypt(buf)
		verif.Assert(err == nil, "peer-decrypts-every-frame-in-arrival-order")
		if err != nil {
			return
		}
		d, _ := ioutil.ReadAll(r)
		got = append(got, d)
	}
	// every payload arrives exactly once, intact (message boundaries = Decrypt calls)
	verif.Assert(len(got) == len(payloads), "one-message-per-write")
	if len(got) != len(payloads) {
		return
	}
	used := make([]bool, len(payloads))
	for _, g := range got {
		found := false
		for i := range payloads {
			if !used[i] && len(g) == len(payloads[i]) && verif.Eq(g, payloads[i]) {
				used[i] = true
				found = true
				break
			}
		}
		verif.Assert(found, "each-payload-intact-and-contiguous")
	}
	verif.Reach("end")
}

// Payload lengths: one frame, and three frames (2049 bytes = 1024+1024+1). Three frames,
// not two, because the native replay relies on the Go runtime handing the mutex to a
// goroutine that has been waiting for more than a millisecond, which happens at the second
// unlock at the earliest.
func Harness_C08_q_two_writers() {
	c08Run(2, []int{1, 2049}, 2, false)
}

// Two writers and a keep-alive tick (hap.KeepAlive sends an empty notification to every
// active connection) at the same time.
func Harness_C08_q_writers_and_keep_alive() {
	c08Run(2, []int{1, 2049}, 2, true)
}

func Harness_C08_t_three_writers() {
	c08Run(3, []int{1, 2049}, 2, false)
}
