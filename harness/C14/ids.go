//hcverif:pkg accessory
package accessory

import (
	"encoding/json"

	"github.com/brutella/hc/characteristic"
	"github.com/brutella/hc/service"

	"hcverif/verif"
)

// iiShape builds an accessory with a symbolic shape: 0..2 extra services of 0..3
// characteristics each (besides the information service every accessory has), possibly
// hidden / primary / linked.
func iiShape(tag string) *Accessory {
	a := New(Info{Name: "n"}, TypeOther)
	ns := verif.Choice(tag+"-services", 3)
	svcs := make([]*service.Service, ns)
	for i := 0; i < ns; i++ {
		s := service.New("43")
		nc := verif.Choice(tag+"-chars"+string(rune('0'+i)), 4)
		for j := 0; j < nc; j++ {
			s.AddCharacteristic(characteristic.NewBrightness().Characteristic)
		}
		s.Hidden = i == 0
		s.Primary = i == 1
		svcs[i] = s
	}
	// links are made before the services are added, in either direction: to a service that is
	// added earlier, or to one that is (also) added explicitly later
	if ns == 2 {
		switch verif.Choice(tag+"-link", 3) {
		case 1:
			svcs[1].AddLinkedService(svcs[0])
		case 2:
			svcs[0].AddLinkedService(svcs[1])
		}
	}
	for _, s := range svcs {
		a.AddService(s)
	}
	return a
}

// UpdateIDs from an arbitrary counter value: instance ids are c, c+1, ... in construction
// order (services before their characteristics), hence pairwise distinct, non-zero and a
// function of the shape only.
func Harness_C14_q_instance_ids() {
	a := iiShape("a")
	c := verif.U64("counter")
	verif.Assume(c >= 1 && c < 1<<62)
	a.idCount = c
	a.UpdateIDs()
	// what the property states: every instance id is non-zero and no two are equal
	var ids []uint64
	for _, s := range a.Services {
		ids = append(ids, s.ID)
		for _, ch := range s.Characteristics {
			ids = append(ids, ch.ID)
		}
	}
	for i := range ids {
		verif.Assert(ids[i] != 0, "instance-id-non-zero")
		for j := 0; j < i; j++ {
			verif.Assert(ids[i] != ids[j], "instance-ids-unique")
		}
	}
	// how this implementation achieves it (internal expectation, not an alarm by itself)
	next := c
	for _, s := range a.Services {
		verif.Assert(s.ID == next, "inv:service-id-sequential")
		next++
		for _, ch := range s.Characteristics {
			verif.Assert(ch.ID == next, "inv:characteristic-id-sequential")
			next++
		}
	}
	verif.Assert(a.idCount == next, "inv:counter-advanced")
	// the accessory grows after ids were assigned once: a characteristic is added to an
	// existing service, a new service is added, ids are assigned again (as adding the
	// accessory to a container or transport does) - still non-zero and pairwise distinct
	if verif.Choice("grows", 2) == 1 {
		last := a.Services[len(a.Services)-1]
		last.AddCharacteristic(characteristic.NewBrightness().Characteristic)
		ns := service.New("49")
		ns.AddCharacteristic(characteristic.NewOn().Characteristic)
		a.AddService(ns)
		a.UpdateIDs()
		var again []uint64
		for _, s := range a.Services {
			again = append(again, s.ID)
			for _, ch := range s.Characteristics {
				again = append(again, ch.ID)
			}
		}
		for i := range again {
			verif.Assert(again[i] != 0, "instance-id-non-zero-after-growth")
			for j := 0; j < i; j++ {
				verif.Assert(again[i] != again[j], "instance-ids-unique-after-growth")
			}
		}
	}
	// rebuilding the same shape yields the same ids (from the initial counter 1)
	b1, b2 := iiShape("a"), iiShape("a")
	b1.UpdateIDs()
	b2.UpdateIDs()
	for i := range b1.Services {
		verif.Assert(b1.Services[i].ID == b2.Services[i].ID && b1.Services[i].ID != 0, "ids-stable-across-rebuilds")
		for j := range b1.Services[i].Characteristics {
			verif.Assert(b1.Services[i].Characteristics[j].ID == b2.Services[i].Characteristics[j].ID, "ids-stable-across-rebuilds")
		}
	}
	verif.Reach("end")
}

// Container.AddAccessory with symbolic explicit ids (0 = automatic): the accepted accessories
// have pairwise distinct non-zero ids; a rejected one is not part of the container.
func Harness_C14_q_accessory_ids() {
	n := 3
	if verif.Thorough() {
		n = 4
	}
	cont := NewContainer()
	var accepted, all []*Accessory
	for i := 0; i < n; i++ {
		id := verif.U64("aid" + string(rune('0'+i)))
		a := New(Info{Name: "n", ID: id}, TypeOther)
		all = append(all, a)
		err := cont.AddAccessory(a)
		if err == nil {
			accepted = append(accepted, a)
		}
	}
	// optionally one of them is removed - a member, or one that was rejected and never became a
	// member (an application rolling back) - and one more accessory is added afterwards
	if verif.Choice("remove-then-add", 2) == 1 {
		r := all[verif.Choice("removed", len(all))]
		cont.RemoveAccessory(r)
		kept := accepted[:0:0]
		for _, a := range accepted {
			if a != r {
				kept = append(kept, a)
			}
		}
		accepted = kept
		late := New(Info{Name: "n", ID: verif.U64("aid-late")}, TypeOther)
		if cont.AddAccessory(late) == nil {
			accepted = append(accepted, late)
		}
	}
	verif.Assert(len(cont.Accessories) == len(accepted), "container-holds-exactly-the-accepted")
	for i, a := range accepted {
		verif.Assert(a.ID != 0, "accessory-id-non-zero")
		verif.Assert(cont.Accessories[i] == a, "inv:container-order-is-insertion-order")
		for j := 0; j < i; j++ {
			verif.Assert(accepted[j].ID != a.ID, "accessory-ids-unique")
		}
	}
	verif.Reach("end")
}

var iiPerms = map[string]bool{"pr": true, "pw": true, "ev": true, "hd": true, "wr": true}

// The attribute database served for every accessory constructor is well-formed HAP JSON:
// every accessory, service and characteristic node carries its id and type, every
// characteristic its format and a valid permission list; ids are unique per accessory.
func Harness_C14_q_attribute_database_json() {
	cont := NewContainer()
	for _, e := range zzAccCtors {
		cont.AddAccessory(e.Make())
	}
	b, err := json.Marshal(cont)
	verif.Assert(err == nil, "container-encodes")
	var doc map[string]interface{}
	verif.Assert(json.Unmarshal(b, &doc) == nil, "container-json-decodes")
	accs, _ := doc["accessories"].([]interface{})
	verif.Assert(len(accs) == len(zzAccCtors), "one-node-per-accessory")
	aids := map[float64]bool{}
	for _, x := range accs {
		a, _ := x.(map[string]interface{})
		aid, ok := a["aid"].(float64)
		verif.Assert(ok && aid != 0 && !aids[aid], "accessory-node-has-unique-aid")
		aids[aid] = true
		svcs, _ := a["services"].([]interface{})
		verif.Assert(len(svcs) >= 1, "accessory-node-has-services")
		iids := map[float64]bool{}
		for _, y := range svcs {
			s, _ := y.(map[string]interface{})
			iid, ok := s["iid"].(float64)
			verif.Assert(ok && iid != 0 && !iids[iid], "service-node-has-unique-iid")
			iids[iid] = true
			typ, ok := s["type"].(string)
			verif.Assert(ok && typ != "", "service-node-has-type")
			chars, ok := s["characteristics"].([]interface{})
			verif.Assert(ok, "service-node-has-characteristics")
			for _, z := range chars {
				c, _ := z.(map[string]interface{})
				ciid, ok := c["iid"].(float64)
				verif.Assert(ok && ciid != 0 && !iids[ciid], "characteristic-node-has-unique-iid")
				iids[ciid] = true
				ctyp, ok := c["type"].(string)
				verif.Assert(ok && ctyp != "", "characteristic-node-has-type")
				f, ok := c["format"].(string)
				verif.Assert(ok && f != "", "characteristic-node-has-format")
				perms, ok := c["perms"].([]interface{})
				verif.Assert(ok, "characteristic-node-has-perms")
				for _, p := range perms {
					ps, _ := p.(string)
					verif.Assert(iiPerms[ps], "characteristic-node-perms-valid")
				}
			}
		}
	}
	verif.Reach("end")
}
