//hcverif:pkg hap/http
package http

import (
	"encoding/json"
	"net/url"

	"github.com/brutella/hc/hap/pair"

	"hcverif/verif"
)

// c13JSONBodies: PUT bodies of arbitrary JSON shape (wrong types, nesting, huge numbers,
// missing members, duplicates), plus text that is not JSON at all.
func c13JSONBody(w *zzWorld) []byte {
	iid := w.bright.Characteristic.ID
	num := zzFinite("num")
	shapes := []func() interface{}{
		func() interface{} { return []interface{}{1.0, "x"} },                                                 // top-level array
		func() interface{} { return map[string]interface{}{"characteristics": num} },                          // not an array
		func() interface{} { return map[string]interface{}{"characteristics": []interface{}{num, "x", nil}} }, // entries not objects
		func() interface{} {
			return map[string]interface{}{"characteristics": []interface{}{map[string]interface{}{"aid": "1", "iid": iid, "value": 1.0}}}
		}, // aid as string
		func() interface{} {
			return map[string]interface{}{"characteristics": []interface{}{map[string]interface{}{"aid": -1.0, "iid": iid}}}
		}, // negative id
		func() interface{} {
			return map[string]interface{}{"characteristics": []interface{}{map[string]interface{}{"aid": 1e300, "iid": iid}}}
		}, // huge id
		func() interface{} {
			return map[string]interface{}{"characteristics": []interface{}{map[string]interface{}{"aid": 1.5, "iid": iid}}}
		}, // fractional id
		func() interface{} {
			return map[string]interface{}{"characteristics": []interface{}{map[string]interface{}{"aid": w.acc.ID, "iid": iid, "value": []interface{}{[]interface{}{num}}, "ev": num}}}
		}, // nested value, numeric ev
		func() interface{} {
			return map[string]interface{}{"characteristics": []interface{}{map[string]interface{}{"aid": w.acc.ID, "iid": iid, "value": map[string]interface{}{"a": map[string]interface{}{"b": num}}}}}
		}, // object value
		func() interface{} {
			return map[string]interface{}{"characteristics": []interface{}{map[string]interface{}{"aid": w.acc.ID, "iid": w.name.Characteristic.ID, "value": []interface{}{num}}}}
		}, // composite into a string characteristic (read-only)
		func() interface{} {
			e := map[string]interface{}{"aid": w.acc.ID, "iid": w.on.Characteristic.ID, "value": []interface{}{num}}
			return map[string]interface{}{"characteristics": []interface{}{e, e}}
		}, // the same composite twice
		func() interface{} {
			return map[string]interface{}{"characteristics": []interface{}{map[string]interface{}{}}}
		}, // empty entry
		func() interface{} { return nil }, // null
	}
	k := verif.Choice("shape", len(shapes)+2)
	verif.Fact("shape", string(rune('a'+k)))
	switch k {
	case len(shapes):
		return []byte("{\"characteristics\":[{\"aid\":1,") // truncated text
	case len(shapes) + 1:
		return []byte{}
	}
	b, _ := json.Marshal(shapes[k]())
	return b
}

// Arbitrary JSON on PUT /characteristics (verified connection): no panic, an answer is
// written, and a following well-formed GET is served.
func Harness_C13_q_put_arbitrary_json() {
	w := newWorld()
	w.connect("10.0.0.2:5000", true)
	remote := "10.0.0.2:5000"
	h := verif.MuxHandler(w.srv.Mux, "/characteristics")
	rec := newRecorder()
	body := c13JSONBody(w)
	p := verif.Panics(func() { h.ServeHTTP(rec, zzRequest("PUT", "/characteristics", remote, nil, body)) })
	verif.Assert(!p, "nopanic-put-json")
	verif.Assert(p || rec.status != 0, "put-always-answers")
	// the accessory still serves
	form := url.Values{}
	form.Set("id", "1."+itoa(w.bright.Characteristic.ID))
	rec2 := newRecorder()
	p2 := verif.Panics(func() { h.ServeHTTP(rec2, zzRequest("GET", "/characteristics", remote, form, nil)) })
	verif.Assert(!p2 && rec2.status == 200, "still-serves-after-bad-put")
	rec3 := newRecorder()
	p3 := verif.Panics(func() {
		verif.MuxHandler(w.srv.Mux, "/accessories").ServeHTTP(rec3, zzRequest("GET", "/accessories", remote, nil, nil))
	})
	verif.Assert(!p3 && len(rec3.docs()) == 1, "attribute-database-still-encodes")
	verif.Reach("end")
}

// Arbitrary id strings on GET /characteristics: every string of length 0..4 over all bytes.
func Harness_C13_q_get_arbitrary_ids() {
	w := newWorld()
	w.connect("10.0.0.2:5000", true)
	n := verif.Choice("len", 5)
	form := url.Values{}
	form.Set("id", verif.String("id", n))
	rec := newRecorder()
	p := verif.Panics(func() {
		verif.MuxHandler(w.srv.Mux, "/characteristics").ServeHTTP(rec, zzRequest("GET", "/characteristics", "10.0.0.2:5000", form, nil))
	})
	verif.Assert(!p, "nopanic-get-ids")
	verif.Assert(p || rec.status != 0, "get-always-answers")
	c13StillServes(w, "arbitrary-get")
	verif.Reach("end")
}

// Arbitrary TLV on /pairings (verified connection): no panic, an answer is written.
func Harness_C13_q_pairings_any_message() {
	w := newWorld()
	w.connect("10.0.0.2:5000", true)
	lens := []int{0, 1, 32, 36}
	k := 1 + verif.Choice("items", 3)
	var body []byte
	for i := 0; i < k; i++ {
		id := string(rune('0' + i))
		n := lens[verif.Choice("ilen"+id, len(lens))]
		body = append(body, verif.U8("tag"+id), byte(n))
		body = append(body, verif.Bytes("val"+id, n)...)
	}
	rec := newRecorder()
	p := verif.Panics(func() {
		verif.MuxHandler(w.srv.Mux, "/pairings").ServeHTTP(rec, zzRequest("POST", "/pairings", "10.0.0.2:5000", nil, body))
	})
	verif.Assert(!p, "nopanic-pairings")
	verif.Assert(p || rec.status != 0, "pairings-always-answers")
	c13StillServes(w, "arbitrary-pairings-request")
	verif.Reach("end")
}

var _ = pair.TagSequence

// c13StillServes: after the arbitrary request, a well-formed request on this or on another
// verified connection is still answered (nothing is left locked or half-updated).
func c13StillServes(w *zzWorld, label string) {
	w.connect("10.0.0.3:5000", true)
	remotes := []string{"10.0.0.2:5000", "10.0.0.3:5000"}
	remote2 := remotes[verif.Choice("next-request-from", 2)]
	rec2 := newRecorder()
	answered := verif.Completes(func() {
		if verif.Choice("next-request", 2) == 0 {
			verif.MuxHandler(w.srv.Mux, "/accessories").ServeHTTP(rec2, zzRequest("GET", "/accessories", remote2, nil, nil))
		} else {
			f2 := url.Values{}
			f2.Set("id", "1."+itoa(w.bright.Characteristic.ID))
			verif.MuxHandler(w.srv.Mux, "/characteristics").ServeHTTP(rec2, zzRequest("GET", "/characteristics", remote2, f2, nil))
		}
	})
	verif.Assert(answered, "not-wedged-after-"+label)
	if answered {
		verif.Assert(rec2.status == 200, "well-formed-request-answered-after-"+label)
	}
}
