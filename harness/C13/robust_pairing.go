//hcverif:pkg hap/endpoint
package endpoint

import (
	"crypto/ed25519"

	"github.com/brutella/hc/crypto/chacha20poly1305"
	"github.com/brutella/hc/crypto/curve25519"
	"github.com/brutella/hc/crypto/hkdf"
	"github.com/brutella/hc/db"
	"github.com/brutella/hc/hap/pair"

	"hcverif/verif"
)

// c13Body returns an arbitrary request body: either up to three TLV items with symbolic
// tags, symbolic contents and lengths from the given set, or raw symbolic bytes (which the
// real TLV parser then has to digest).
func c13Body(lens []int, maxRaw int) []byte {
	if verif.Choice("body-kind", 2) == 1 {
		n := verif.Choice("raw-len", maxRaw+1)
		verif.MakeCap(maxRaw)
		return verif.Bytes("raw", n)
	}
	maxItems := 2 // (three items with the thorough length set did not finish within the harness deadline)
	k := 1 + verif.Choice("items", maxItems)
	var body []byte
	for i := 0; i < k; i++ {
		id := string(rune('0' + i))
		n := lens[verif.Choice("ilen"+id, len(lens))]
		body = append(body, verif.U8("tag"+id), byte(n))
		body = append(body, verif.Bytes("val"+id, n)...)
	}
	return body
}

func c13Lens() []int {
	if verif.Thorough() {
		return []int{0, 1, 15, 16, 17, 32, 64, 255}
	}
	return []int{0, 1, 16, 17, 32}
}

// Pair-setup in every state reachable by a prefix of a correct exchange receives an
// arbitrary message: no panic, a response is written, and afterwards a start request -
// preceded by at most one rejected start request - is accepted on the same connection,
// and a start request on a new connection is accepted.
func Harness_C13_q_pair_setup_any_message() {
	w := eeNewWorld()
	w.connect("10.0.0.2:5000")
	remote := "10.0.0.2:5000"
	state := verif.Choice("pre-state", 3)
	verif.Fact("pre-state", []string{"fresh", "after-start", "after-verified-proof"}[state])
	if state >= 1 {
		rec, _ := eePost(w.setup, "/pair-setup", remote, eeTLV(pair.TagPairingMethod, byte(0), pair.TagSequence, byte(1)))
		m2 := rec.tlv()
		verif.Assume(m2 != nil)
		if state == 2 {
			c := rcSRPClient(verif.Bytes("client-a", 32), w.dev.pin, m2.GetBytes(pair.TagSalt), m2.GetBytes(pair.TagPublicKey))
			rec, _ = eePost(w.setup, "/pair-setup", remote, eeTLV(pair.TagSequence, byte(3), pair.TagPublicKey, c.A, pair.TagProof, c.M1))
			m4 := rec.tlv()
			verif.Assume(m4 != nil && m4.GetByte(pair.TagErrCode) == 0)
		}
	}
	rec, p := eePost(w.setup, "/pair-setup", remote, c13Body(c13Lens(), 6))
	verif.Assert(!p, "nopanic-pair-setup")
	verif.Assert(p || rec.status != 0, "pair-setup-always-answers")
	// recovery on the same connection
	start := eeTLV(pair.TagPairingMethod, byte(0), pair.TagSequence, byte(1))
	ok := func(r *eeRecorder, panicked bool) bool {
		t := r.tlv()
		return !panicked && r.status == 200 && t != nil && t.GetByte(pair.TagSequence) == 2 && len(t.GetBytes(pair.TagPublicKey)) > 0
	}
	r1, p1 := eePost(w.setup, "/pair-setup", remote, start)
	if !ok(r1, p1) {
		r2, p2 := eePost(w.setup, "/pair-setup", remote, start)
		verif.Assert(ok(r2, p2), "pair-setup-recovers-after-at-most-one-rejected-start")
	}
	// and on a new connection
	w.connect("10.0.0.3:5000")
	r3, p3 := eePost(w.setup, "/pair-setup", "10.0.0.3:5000", start)
	verif.Assert(ok(r3, p3), "pair-setup-new-connection-starts")
	verif.Reach("end")
}

// The same for pair-verify.
func Harness_C13_q_pair_verify_any_message() {
	w := eeNewWorld()
	_, sess := w.connect("10.0.0.2:5000")
	remote := "10.0.0.2:5000"
	attPub, _, _ := ed25519.GenerateKey(nil)
	state := verif.Choice("pre-state", 2)
	verif.Fact("pre-state", []string{"fresh", "after-start"}[state])
	start := eeTLV(pair.TagSequence, byte(1), pair.TagPublicKey, []byte(attPub))
	if state == 1 {
		rec, _ := eePost(w.verify, "/pair-verify", remote, start)
		verif.Assume(rec.tlv() != nil && rec.status == 200)
	}
	rec, p := eePost(w.verify, "/pair-verify", remote, c13Body(c13Lens(), 6))
	verif.Assert(!p, "nopanic-pair-verify")
	verif.Assert(p || rec.status != 0, "pair-verify-always-answers")
	verif.Assert(sess.Decrypter() == nil, "garbage-does-not-verify")
	ok := func(r *eeRecorder, panicked bool) bool {
		t := r.tlv()
		return !panicked && r.status == 200 && t != nil && t.GetByte(pair.TagSequence) == 2 && len(t.GetBytes(pair.TagPublicKey)) == 32
	}
	r1, p1 := eePost(w.verify, "/pair-verify", remote, start)
	if !ok(r1, p1) {
		r2, p2 := eePost(w.verify, "/pair-verify", remote, start)
		verif.Assert(ok(r2, p2), "pair-verify-recovers-after-at-most-one-rejected-start")
	}
	w.connect("10.0.0.3:5000")
	r3, p3 := eePost(w.verify, "/pair-verify", "10.0.0.3:5000", start)
	verif.Assert(ok(r3, p3), "pair-verify-new-connection-starts")
	verif.Reach("end")
}

// A stored pairing may hold a key of an unusual length (an admin controller can add any
// bytes through /pairings). An unpaired peer that names such a pairing in a correctly sealed
// pair-verify finish is answered with an error; the handler does not panic.
func Harness_C13_q_verify_names_pairing_with_odd_key() {
	w := eeNewWorld()
	n := []int{0, 1, 31, 33, 64}[verif.Choice("stored-key-length", 5)]
	w.db.SaveEntity(db.NewEntity("odd", verif.Bytes("odd-key", n), nil))
	_, sess := w.connect("10.0.0.9:6000")
	remote := "10.0.0.9:6000"
	sk := curve25519.GeneratePrivateKey()
	pk := curve25519.PublicKey(sk)
	rec, p := eePost(w.verify, "/pair-verify", remote, eeTLV(pair.TagSequence, byte(1), pair.TagPublicKey, pk[:]))
	verif.Assert(!p, "nopanic-pair-verify")
	t := rec.tlv()
	if p || t == nil || len(t.GetBytes(pair.TagPublicKey)) != 32 {
		return
	}
	var accEph [32]byte
	copy(accEph[:], t.GetBytes(pair.TagPublicKey))
	shared := curve25519.SharedSecret(sk, accEph)
	key, _ := hkdf.Sha512(shared[:], []byte("Pair-Verify-Encrypt-Salt"), []byte("Pair-Verify-Encrypt-Info"))
	sub := eeTLV(pair.TagUsername, "odd", pair.TagSignature, verif.Bytes("signature", 64))
	ct, mac, _ := chacha20poly1305.EncryptAndSeal(key[:], []byte("PV-Msg03"), sub, nil)
	rec, p = eePost(w.verify, "/pair-verify", remote, eeTLV(pair.TagSequence, byte(3), pair.TagEncryptedData, append(ct, mac[:]...)))
	verif.Assert(!p, "nopanic-pair-verify")
	verif.Assert(p || rec.status != 0, "pair-verify-always-answers")
	verif.Assert(sess.Decrypter() == nil, "odd-key-does-not-verify")
	verif.Reach("end")
}
