//hcverif:pkg hap/pair
package pair

import (
	"github.com/brutella/hc/db"
	"github.com/brutella/hc/util"

	"hcverif/verif"
)

// /pairings "add" and "remove" against the REAL pairing database on the file storage,
// with controller names up to 128 bytes (the entity file name is hex(name)+".entity", which
// exceeds NAME_MAX = 255 from 125 bytes on): the controller answers or returns an error, it
// does not panic; a name that cannot be stored does not wedge later requests.
func Harness_C13_q_pairings_long_names() {
	dir := verif.TempDir("c13db")
	st, _ := util.NewFileStorage(dir)
	c := NewPairingController(db.NewDatabaseWithStorage(st))
	lens := []int{1, 36, 122, 124, 128}
	n := lens[verif.Choice("name-len", len(lens))]
	// only the length matters for the file name limit: two symbolic bytes, the rest fixed
	name := make([]byte, n)
	for i := range name {
		name[i] = 'n'
	}
	copy(name, verif.Bytes("name-head", 1))
	verif.Assume(name[0] < 0x80)
	method := []byte{PairingMethodAdd.Byte(), PairingMethodDelete.Byte()}[verif.Choice("method", 2)]
	in := util.NewTLV8Container()
	in.SetByte(TagPairingMethod, method)
	in.SetBytes(TagUsername, name)
	in.SetBytes(TagPublicKey, verif.Bytes("ltpk", 32))
	in.SetByte(TagPermission, verif.U8("perm"))
	var out util.Container
	var err error
	p := verif.Panics(func() { out, err = c.Handle(in) })
	verif.Fact("name-len", string(rune('0'+n/100))+string(rune('0'+n/10%10))+string(rune('0'+n%10)))
	verif.Assert(!p, "nopanic-pairings-handle")
	verif.Assert(p || out != nil || err != nil, "pairings-handle-answers")
	// a normal request afterwards works
	in2 := util.NewTLV8Container()
	in2.SetByte(TagPairingMethod, PairingMethodAdd.Byte())
	in2.SetString(TagUsername, "ok-controller")
	in2.SetBytes(TagPublicKey, make([]byte, 32))
	var out2 util.Container
	var err2 error
	p2 := verif.Panics(func() { out2, err2 = c.Handle(in2) })
	verif.Assert(!p2 && err2 == nil && out2 != nil, "pairings-still-works-afterwards")
	verif.Reach("end")
}
