//hcverif:pkg hap/endpoint
package endpoint

import (
	"crypto/ed25519"

	"github.com/brutella/hc/crypto/chacha20poly1305"
	"github.com/brutella/hc/crypto/hkdf"
	"github.com/brutella/hc/hap/pair"

	"hcverif/verif"
)

// An adversary that does not know the setup code sends k pair-setup messages on one
// connection, each chosen from the message alphabet below (every byte that is not fixed by
// the choice is symbolic). It can compute everything computable from public values and its
// own keys: HKDF over secrets it picks, AEAD under keys it picks, signatures with its own
// Ed25519 key. It cannot produce an SRP client proof (no setup code) - proofs are arbitrary
// bytes. After every message the set of stored pairings is unchanged.
func c02Attacker(k int, lean bool) {
	w := eeNewWorld()
	w.connect("10.0.0.9:6000")
	remote := "10.0.0.9:6000"
	attPub, attPriv, _ := ed25519.GenerateKey(nil)
	saves0 := w.db.saves
	hist := ""
	var salt, B []byte // from the accessory's last M2
	for step := 0; step < k; step++ {
		id := string(rune('0' + step))
		var body []byte
		isM3 := false
		switch verif.Choice("msg"+id, 4) {
		case 0: // M1 start
			hist += "start;"
			body = eeTLV(pair.TagSequence, byte(1), pair.TagPairingMethod, byte(0))
		case 1: // M3 verify: A zero / arbitrary non-zero, proof arbitrary
			var A []byte
			if verif.Choice("A"+id, 2) == 0 {
				hist += "verify(A=0);"
				A = make([]byte, 384)
			} else {
				hist += "verify(A=any);"
				A = verif.Bytes("A"+id, 384)
				verif.Assume(A[0] != 0) // minimal big-endian encoding (leading zero bytes are not modelled)
			}
			var proof []byte
			pk := verif.Choice("proof"+id, 3)
			if lean && pk == 2 {
				pk = 0
			}
			if pk == 2 {
				// a real SRP client run with a password the adversary can guess: the accessory's
				// public name, or the empty string (a verifier must only ever be made from the
				// setup code)
				guess := []string{w.dev.name, ""}[verif.Choice("guess"+id, 2)]
				hist += "[srp client with guessed password]"
				if salt != nil && B != nil && len(B) > 0 {
					c := rcSRPClient(verif.Bytes("guess-a"+id, 32), guess, salt, B)
					A, proof = c.A, c.M1
				} else {
					proof = verif.Bytes("M1-"+id, 64)
				}
			} else if pk == 0 {
				proof = verif.Bytes("M1-"+id, 64)
			} else {
				// a proof the adversary CAN compute: the M1 formula over public values and a
				// session key it knows - none has been agreed, so the empty key
				hist += "[proof over empty key]"
				An := A
				if verif.Choice("A"+id, 2) == 0 {
					An = []byte{}
				}
				proof = rcM1(salt, An, B, nil)
			}
			body = eeTLV(pair.TagSequence, byte(3), pair.TagPublicKey, A, pair.TagProof, proof)
			isM3 = true
		case 2: // M5 key exchange
			var enc []byte
			switch verif.Choice("enc"+id, 3) {
			case 0: // shorter than an auth tag
				shorts := []int{0, 1, 15}
				if lean {
					shorts = []int{15}
				}
				n := shorts[verif.Choice("short"+id, len(shorts))]
				hist += "keyexchange(short);"
				enc = verif.Bytes("short-enc"+id, n)
			case 1: // arbitrary bytes
				hist += "keyexchange(arbitrary);"
				enc = verif.Bytes("arb-enc"+id, 16+8)
			default: // sealed by the attacker
				var key [32]byte
				var secret []byte // what the attacker believes S is
				switch verif.Choice("key"+id, 3) {
				case 0:
					hist += "keyexchange(sealed:zero-key"
				case 1:
					hist += "keyexchange(sealed:hkdf-of-empty-secret"
					key, _ = hkdf.Sha512(nil, []byte("Pair-Setup-Encrypt-Salt"), []byte("Pair-Setup-Encrypt-Info"))
				default:
					hist += "keyexchange(sealed:hkdf-of-guessed-secret"
					secret = verif.Bytes("guessed-S"+id, 384)
					key, _ = hkdf.Sha512(secret, []byte("Pair-Setup-Encrypt-Salt"), []byte("Pair-Setup-Encrypt-Info"))
				}
				h, _ := hkdf.Sha512(secret, []byte("Pair-Setup-Controller-Sign-Salt"), []byte("Pair-Setup-Controller-Sign-Info"))
				name := "evil"
				material := append(append(append([]byte{}, h[:]...), []byte(name)...), attPub...)
				var sig []byte
				if lean || verif.Choice("sig"+id, 2) == 0 {
					hist += ",signed);"
					sig = ed25519.Sign(attPriv, material)
				} else {
					hist += ",garbage-signature);"
					sig = verif.Bytes("garbage-sig"+id, 64)
				}
				sub := eeTLV(pair.TagUsername, name, pair.TagPublicKey, []byte(attPub), pair.TagSignature, sig)
				nonce := "PS-Msg05"
				if !lean {
					nonce = []string{"PS-Msg05", "PS-Msg06"}[verif.Choice("nonce"+id, 2)]
				}
				ct, mac, _ := chacha20poly1305.EncryptAndSeal(key[:], []byte(nonce), sub, nil)
				enc = append(ct, mac[:]...)
			}
			body = eeTLV(pair.TagSequence, byte(5), pair.TagEncryptedData, enc)
		default: // unknown step / method
			hist += "junk;"
			body = eeTLV(pair.TagSequence, verif.U8("junk-state"+id), pair.TagPairingMethod, verif.U8("junk-method"+id))
		}
		rec, _ := eePost(w.setup, "/pair-setup", remote, body)
		if isM3 {
			t := rec.tlv()
			verif.Assert(rec.status >= 400 || (t != nil && t.GetByte(pair.TagErrCode) != 0), "proof-made-without-the-setup-code-is-answered-with-an-error")
		}
		if t := rec.tlv(); t != nil && rec.status == 200 && t.GetByte(pair.TagSequence) == 2 {
			salt, B = t.GetBytes(pair.TagSalt), t.GetBytes(pair.TagPublicKey)
		}
		verif.Fact("history", hist)
		verif.Assert(w.db.saves == saves0 && len(w.db.ents) == 1, "no-pairing-stored-without-setup-code-proof")
		if w.db.saves != saves0 {
			return
		}
	}
	verif.Reach("end")
}

func Harness_C02_q_attacker_3() { c02Attacker(3, false) }

// four messages over the lean alphabet (13 instead of 31 alternatives per step: the M5
// variants that differ only in the nonce label, an unsigned sub-TLV or the length of a
// too-short ciphertext are left to the 3-message harness)
func Harness_C02_t_attacker_4() { c02Attacker(4, true) }

// Replay: an honest controller that knows the setup code pairs on one connection; the
// adversary records its M3 and M5 and replays them verbatim on a second connection (after
// its own M1). The proof was made for the first connection's SRP session, so nothing more
// is stored and the replayed proof is answered with an error.
func Harness_C02_q_replay_of_honest_exchange() {
	w := eeNewWorld()
	w.connect("10.0.0.2:5000")
	honest := "10.0.0.2:5000"
	ctrlPub, ctrlPriv, _ := ed25519.GenerateKey(nil)
	m1 := eeTLV(pair.TagPairingMethod, byte(0), pair.TagSequence, byte(1))
	rec, _ := eePost(w.setup, "/pair-setup", honest, m1)
	m2 := rec.tlv()
	if m2 == nil {
		return
	}
	salt, B := m2.GetBytes(pair.TagSalt), m2.GetBytes(pair.TagPublicKey)
	if len(salt) != 16 || len(B) == 0 || len(B) > 384 {
		return
	}
	c := rcSRPClient(verif.Bytes("client-a", 32), w.dev.pin, salt, B)
	m3 := eeTLV(pair.TagSequence, byte(3), pair.TagPublicKey, c.A, pair.TagProof, c.M1)
	rec, _ = eePost(w.setup, "/pair-setup", honest, m3)
	m4 := rec.tlv()
	verif.Assert(m4 != nil && m4.GetByte(pair.TagErrCode) == 0, "honest-proof-accepted")
	if m4 == nil || m4.GetByte(pair.TagErrCode) != 0 {
		return
	}
	encKey := rcHKDF(c.K, "Pair-Setup-Encrypt-Salt", "Pair-Setup-Encrypt-Info")
	ctrlX := rcHKDF(c.K, "Pair-Setup-Controller-Sign-Salt", "Pair-Setup-Controller-Sign-Info")
	name := []byte("ctrl-1")
	sig := ed25519.Sign(ctrlPriv, append(append(append([]byte{}, ctrlX...), name...), ctrlPub...))
	sub := eeTLV(pair.TagUsername, name, pair.TagPublicKey, []byte(ctrlPub), pair.TagSignature, sig)
	m5 := eeTLV(pair.TagSequence, byte(5), pair.TagEncryptedData, rcSeal(encKey, "PS-Msg05", sub))
	eePost(w.setup, "/pair-setup", honest, m5)
	verif.Assert(w.db.saves == 1, "honest-controller-is-paired")
	saves1 := w.db.saves

	// the adversary, on its own connection
	w.connect("10.0.0.9:6000")
	evil := "10.0.0.9:6000"
	eePost(w.setup, "/pair-setup", evil, m1)
	rec, _ = eePost(w.setup, "/pair-setup", evil, m3)
	r4 := rec.tlv()
	verif.Assert(rec.status >= 400 || (r4 != nil && r4.GetByte(pair.TagErrCode) != 0), "replayed-proof-is-answered-with-an-error")
	verif.Assert(w.db.saves == saves1, "no-pairing-stored-without-setup-code-proof")
	eePost(w.setup, "/pair-setup", evil, m5)
	verif.Assert(w.db.saves == saves1, "no-pairing-stored-without-setup-code-proof")
	verif.Reach("end")
}
