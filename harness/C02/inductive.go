//hcverif:pkg hap/pair
package pair

import (
	"crypto/ed25519"

	"github.com/brutella/hc/crypto/chacha20poly1305"
	"github.com/brutella/hc/crypto/hkdf"

	"hcverif/verif"
)

// Inductive step over SetupServerController.Handle from an ARBITRARY controller state.
//
// Invariant Inv:  step == VerifyResponse  =>  a client proof was verified in this exchange
// and the encryption key is HKDF(K, "Pair-Setup-Encrypt-Salt", "Pair-Setup-Encrypt-Info")
// for that exchange's (secret) session key K.
//
// From any state satisfying Inv (arbitrary step byte; arbitrary encryption key, including
// all-zero, when step != VerifyResponse), one message of an adversary that does not know K
// or the setup code (L2) stores nothing and (L1) cannot produce a state with
// step == VerifyResponse that violates Inv. An honest verify message establishes Inv.
// Since Inv holds in the initial state, it holds after message histories of any length.
func Harness_C02_q_inductive_step() {
	dev := ppNewDevice()
	database := &ppDB{}
	ctrl, err := NewSetupServerController(dev, database)
	verif.Assert(err == nil, "controller-created")
	attPub, attPriv, _ := ed25519.GenerateKey(nil)

	// arbitrary pre-state
	pre := PairStepType(verif.U8("pre-step"))
	ctrl.step = pre
	K := verif.Bytes("session-key-K", 64) // secret of the exchange (only meaningful when proven)
	var encKey [32]byte
	if pre == PairStepVerifyResponse {
		// Inv: proven key
		ctrl.session.PrivateKey = K
		encKey, _ = hkdf.Sha512(K, []byte("Pair-Setup-Encrypt-Salt"), []byte("Pair-Setup-Encrypt-Info"))
	} else {
		switch verif.Choice("stale-session", 3) {
		case 0: // fresh session: zero key, no secret
		case 1: // stale key material of an earlier, completed or failed exchange
			ctrl.session.PrivateKey = K
			encKey, _ = hkdf.Sha512(K, []byte("Pair-Setup-Encrypt-Salt"), []byte("Pair-Setup-Encrypt-Info"))
		default: // arbitrary bytes
			copy(encKey[:], verif.Bytes("arbitrary-enc-key", 32))
		}
	}
	ctrl.session.EncryptionKey = encKey
	keyBefore := encKey

	// one adversary message
	var in = ppTLV()
	kind := verif.Choice("msg", 4)
	verif.Fact("msg", []string{"start", "verify", "keyexchange", "junk"}[kind])
	switch kind {
	case 0:
		in = ppTLV(TagSequence, byte(1), TagPairingMethod, byte(0))
	case 1:
		var A []byte
		if verif.Choice("A", 2) == 0 {
			A = make([]byte, 384)
		} else {
			A = verif.Bytes("A", 384)
			verif.Assume(A[0] != 0)
		}
		proof := verif.Bytes("M1", 64)
		if verif.Choice("proof", 2) == 1 {
			// the proof formula over public values and the empty key (computable by anyone)
			An := A
			if A[0] == 0 {
				An = []byte{}
			}
			proof = ppM1(ctrl.session.Salt, An, ctrl.session.PublicKey, nil)
		}
		in = ppTLV(TagSequence, byte(3), TagPublicKey, A, TagProof, proof)
	case 2:
		var enc []byte
		switch verif.Choice("enc", 3) {
		case 0:
			enc = verif.Bytes("short", []int{0, 1, 15}[verif.Choice("shortlen", 3)])
		case 1:
			enc = verif.Bytes("arbitrary", 24)
		default:
			var key [32]byte
			var secret []byte
			switch verif.Choice("key", 3) {
			case 0: // zero key
			case 1:
				key, _ = hkdf.Sha512(nil, []byte("Pair-Setup-Encrypt-Salt"), []byte("Pair-Setup-Encrypt-Info"))
			default:
				secret = verif.Bytes("guessed-K", 64)
				verif.Assume(!verif.Eq(secret, K)) // the adversary does not know the exchange's session key
				key, _ = hkdf.Sha512(secret, []byte("Pair-Setup-Encrypt-Salt"), []byte("Pair-Setup-Encrypt-Info"))
			}
			h, _ := hkdf.Sha512(secret, []byte("Pair-Setup-Controller-Sign-Salt"), []byte("Pair-Setup-Controller-Sign-Info"))
			material := append(append(append([]byte{}, h[:]...), []byte("evil")...), attPub...)
			sub := ppTLV(TagUsername, "evil", TagPublicKey, []byte(attPub), TagSignature, ed25519.Sign(attPriv, material)).BytesBuffer().Bytes()
			ct, mac, _ := chacha20poly1305.EncryptAndSeal(key[:], []byte("PS-Msg05"), sub, nil)
			enc = append(ct, mac[:]...)
		}
		in = ppTLV(TagSequence, byte(5), TagEncryptedData, enc)
	default:
		in = ppTLV(TagSequence, verif.U8("junk-state"), TagPairingMethod, verif.U8("junk-method"))
	}
	p := verif.Panics(func() { ctrl.Handle(in) })
	verif.Assert(!p, "nopanic-handle")

	// L2: nothing stored. (In the proven state the adversary does not know K; in every other
	// state no key-exchange may be accepted at all.)
	verif.Assert(database.saves == 0, "adversary-message-stores-nothing")
	// L1: the invariant is preserved
	if ctrl.step == PairStepVerifyResponse {
		verif.Assert(pre == PairStepVerifyResponse && ctrl.session.EncryptionKey == keyBefore,
			"inv:step-verify-response-only-with-a-verified-proof")
	}
	verif.Reach("end")
}

// The honest verify message establishes the invariant: after M3 with the right proof the
// controller is in step VerifyResponse with the key derived from the agreed session key.
func Harness_C02_q_honest_verify_establishes_invariant() {
	dev := ppNewDevice()
	database := &ppDB{}
	ctrl, _ := NewSetupServerController(dev, database)
	out, err := ctrl.Handle(ppTLV(TagSequence, byte(1), TagPairingMethod, byte(0)))
	verif.Assert(err == nil && out != nil, "start-accepted")
	if out == nil {
		return
	}
	A, M1, K := ppHonestProof(verif.Bytes("client-a", 32), dev.pin, out.GetBytes(TagSalt), out.GetBytes(TagPublicKey))
	out, err = ctrl.Handle(ppTLV(TagSequence, byte(3), TagPublicKey, A, TagProof, M1))
	verif.Assert(err == nil && out != nil && out.GetByte(TagErrCode) == 0, "honest-proof-accepted")
	want, _ := hkdf.Sha512(K, []byte("Pair-Setup-Encrypt-Salt"), []byte("Pair-Setup-Encrypt-Info"))
	verif.Assert(ctrl.step == PairStepVerifyResponse && ctrl.session.EncryptionKey == want, "inv:invariant-established")
	verif.Reach("end")
}
