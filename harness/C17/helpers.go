//hcverif:pkg tlv8
package tlv8

import (
	"hcverif/verif"
)

// helpers shared by the C17 harnesses; nothing here refers to unexported identifiers of tlv8

// reference TLV8 item(s): fragments of at most 255 bytes, none empty
func kkRef(tag byte, v []byte) []byte {
	out := []byte{}
	for len(v) > 0 {
		n := len(v)
		if n > 255 {
			n = 255
		}
		out = append(out, tag, byte(n))
		out = append(out, v[:n]...)
		v = v[n:]
	}
	return out
}

// kkCanon is a conformant peer's view of a wire: complete items, adjacent items of one type
// joined into one value, written back in the strict reference form.
func kkCanon(wire []byte) ([]byte, bool) {
	type item struct {
		tag byte
		val []byte
	}
	var items []item
	for len(wire) > 0 {
		if len(wire) < 2 || len(wire) < 2+int(wire[1]) {
			return nil, false
		}
		n := int(wire[1])
		if k := len(items); k > 0 && items[k-1].tag == wire[0] && (n > 0 || len(items[k-1].val) > 0) {
			items[k-1].val = append(items[k-1].val, wire[2:2+n]...)
		} else {
			items = append(items, item{wire[0], append([]byte{}, wire[2:2+n]...)})
		}
		wire = wire[2+n:]
	}
	out := []byte{}
	for _, it := range items {
		if len(it.val) == 0 {
			out = append(out, it.tag, 0) // an empty item (list separator) stays
		}
		out = append(out, kkRef(it.tag, it.val)...)
	}
	return out, true
}

// kkWire: the bytes are what a conformant peer expects (alarm when its view differs from
// the reference), and byte-identical to the reference (internal expectation: an equivalent
// fragmentation is not a violation).
func kkWire(enc, ref []byte, label string) bool {
	verif.Assert(verif.Eq(enc, ref), "inv:byte-identical:"+label)
	ce, ok1 := kkCanon(enc)
	cr, ok2 := kkCanon(ref)
	ok := ok1 && ok2 && verif.Eq(ce, cr)
	verif.Assert(ok, label)
	return ok
}

func kkLE(x uint64, n int) []byte {
	b := make([]byte, n)
	for i := range b {
		b[i] = byte(x >> (8 * uint(i)))
	}
	return b
}
