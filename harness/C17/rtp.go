//hcverif:pkg rtp
package rtp

import (
	"math"

	"github.com/brutella/hc/tlv8"

	"hcverif/verif"
)

func rrBytes(name string, lens []int) []byte {
	return verif.Bytes(name, lens[verif.Choice(name+"-len", len(lens))])
}

// Round trip of the RTP message types the library defines, with symbolic field values.
func Harness_C17_q_rtp_setup_endpoints() {
	v := SetupEndpointsResponse{
		SessionId: rrBytes("session", []int{1, 16}),
		Status:    verif.U8("status"),
		AccessoryAddr: Addr{IPVersion: verif.U8("ipv"), IPAddr: verif.String("ip", 3),
			VideoRtpPort: verif.U16("vport"), AudioRtpPort: verif.U16("aport")},
		Video:     CryptoSuite{Type: verif.U8("vtype"), MasterKey: verif.Bytes("vkey", 16), MasterSalt: verif.Bytes("vsalt", 14)},
		Audio:     CryptoSuite{Type: verif.U8("atype"), MasterKey: verif.Bytes("akey", 32), MasterSalt: verif.Bytes("asalt", 14)},
		SsrcVideo: int32(verif.U32("ssrcv")),
		SsrcAudio: int32(verif.U32("ssrca")),
	}
	enc, err := tlv8.Marshal(v)
	verif.Assert(err == nil, "marshal-ok")
	var back SetupEndpointsResponse
	p := verif.Panics(func() { err = tlv8.Unmarshal(enc, &back) })
	verif.Assert(!p && err == nil, "unmarshal-ok")
	if p || err != nil {
		return
	}
	ok := verif.Eq(back.SessionId, v.SessionId) && back.Status == v.Status &&
		back.AccessoryAddr == v.AccessoryAddr &&
		back.Video.Type == v.Video.Type && verif.Eq(back.Video.MasterKey, v.Video.MasterKey) && verif.Eq(back.Video.MasterSalt, v.Video.MasterSalt) &&
		back.Audio.Type == v.Audio.Type && verif.Eq(back.Audio.MasterKey, v.Audio.MasterKey) && verif.Eq(back.Audio.MasterSalt, v.Audio.MasterSalt) &&
		back.SsrcVideo == v.SsrcVideo && back.SsrcAudio == v.SsrcAudio
	verif.Assert(ok, "setup-endpoints-response-roundtrip")
	verif.Reach("end")
}

func Harness_C17_q_rtp_stream_configuration() {
	bits := verif.U32("interval")
	verif.Assume(math.Float32frombits(bits) == math.Float32frombits(bits))
	rtp := RTPParams{PayloadType: verif.U8("pt"), Ssrc: int32(verif.U32("ssrc")), Bitrate: verif.U16("bitrate"),
		Interval: math.Float32frombits(bits), ComfortNoisePayloadType: verif.U8("cn"), MTU: verif.U16("mtu")}
	v := StreamConfiguration{
		Command: SessionControlCommand{Identifier: verif.Bytes("id", 16), Type: verif.U8("cmd")},
		Video: VideoParameters{CodecType: verif.U8("vcodec"), RTP: rtp,
			Attributes: VideoCodecAttributes{Width: verif.U16("w"), Height: verif.U16("h"), Framerate: verif.U8("fps")},
			CodecParams: VideoCodecParameters{
				Profiles:       []VideoCodecProfile{{verif.U8("prof0")}, {verif.U8("prof1")}},
				Levels:         []VideoCodecLevel{{verif.U8("lvl0")}},
				Packetizations: []VideoCodecPacketization{{verif.U8("pack0")}},
			}},
	}
	// inline-list elements equal to the zero struct end the list (by design of the encoding)
	verif.Assume(v.Video.CodecParams.Profiles[0].Id != 0 && v.Video.CodecParams.Profiles[1].Id != 0 &&
		v.Video.CodecParams.Levels[0].Level != 0 && v.Video.CodecParams.Packetizations[0].Mode != 0)
	enc, err := tlv8.Marshal(v)
	verif.Assert(err == nil, "marshal-ok")
	var back StreamConfiguration
	p := verif.Panics(func() { err = tlv8.Unmarshal(enc, &back) })
	verif.Assert(!p && err == nil, "unmarshal-ok")
	if p || err != nil {
		return
	}
	verif.Assert(verif.Eq(back.Command.Identifier, v.Command.Identifier) && back.Command.Type == v.Command.Type, "command-roundtrip")
	verif.Assert(back.Video.CodecType == v.Video.CodecType && back.Video.Attributes == v.Video.Attributes, "video-roundtrip")
	br := back.Video.RTP
	verif.Assert(br.PayloadType == rtp.PayloadType && br.Ssrc == rtp.Ssrc && br.Bitrate == rtp.Bitrate &&
		math.Float32bits(br.Interval) == bits && br.ComfortNoisePayloadType == rtp.ComfortNoisePayloadType && br.MTU == rtp.MTU, "rtp-params-roundtrip")
	bp := back.Video.CodecParams
	verif.Assert(len(bp.Profiles) == 2 && len(bp.Levels) == 1 && len(bp.Packetizations) == 1, "codec-parameter-lists-shape")
	if len(bp.Profiles) == 2 && len(bp.Levels) == 1 && len(bp.Packetizations) == 1 {
		verif.Assert(bp.Profiles[0] == v.Video.CodecParams.Profiles[0] && bp.Profiles[1] == v.Video.CodecParams.Profiles[1] &&
			bp.Levels[0] == v.Video.CodecParams.Levels[0] && bp.Packetizations[0] == v.Video.CodecParams.Packetizations[0], "codec-parameter-lists-roundtrip")
	}
	verif.Reach("end")
}

// Arbitrary bytes into the request types a controller sends: a value or an error.
func Harness_C17_q_rtp_unmarshal_arbitrary() {
	max := 6
	if verif.Thorough() {
		max = 9
	}
	n := verif.Choice("n", max+1)
	raw := verif.Bytes("raw", n)
	verif.MakeCap(max)
	var a SetupEndpoints
	p := verif.Panics(func() { tlv8.Unmarshal(append([]byte{}, raw...), &a) })
	verif.Assert(!p, "nopanic-setup-endpoints")
	var b StreamConfiguration
	p = verif.Panics(func() { tlv8.Unmarshal(append([]byte{}, raw...), &b) })
	verif.Assert(!p, "nopanic-stream-configuration")
	verif.Reach("end")
}
