//hcverif:pkg tlv8
package tlv8

import (
	"bytes"
	"math"

	"hcverif/verif"
)

// (K) every writer kernel emits the reference little-endian encoding of its full-width
// symbolic value and the matching reader kernel returns the value.
func Harness_C17_q_kernels_roundtrip() {
	tag := verif.U8("tag")
	verif.Assume(tag != 0) // tag 0 with length 0 is the list delimiter
	w := newWriter()
	var want []byte
	kind := verif.Choice("kind", 10)
	names := []string{"uint8", "uint16", "uint32", "uint64", "int16", "int32", "int64", "float32", "bool", "bytes"}
	verif.Fact("kind", names[kind])
	var check func(r *reader)
	switch kind {
	case 0:
		v := verif.U8("v8")
		w.writeByte(tag, v)
		want = kkRef(tag, []byte{v})
		check = func(r *reader) { g, err := r.readByte(tag); verif.Assert(err == nil && g == v, "read-back-uint8") }
	case 1:
		v := verif.U16("v16")
		w.writeUint16(tag, v)
		want = kkRef(tag, kkLE(uint64(v), 2))
		check = func(r *reader) { g, err := r.readUint16(tag); verif.Assert(err == nil && g == v, "read-back-uint16") }
	case 2:
		v := verif.U32("v32")
		w.writeUint32(tag, v)
		want = kkRef(tag, kkLE(uint64(v), 4))
		check = func(r *reader) { g, err := r.readUint32(tag); verif.Assert(err == nil && g == v, "read-back-uint32") }
	case 3:
		v := verif.U64("v64")
		w.writeUint64(tag, v)
		want = kkRef(tag, kkLE(v, 8))
		check = func(r *reader) { g, err := r.readUint64(tag); verif.Assert(err == nil && g == v, "read-back-uint64") }
	case 4:
		v := int16(verif.U16("vi16"))
		w.writeInt16(tag, v)
		want = kkRef(tag, kkLE(uint64(uint16(v)), 2))
		check = func(r *reader) { g, err := r.readint16(tag); verif.Assert(err == nil && g == v, "read-back-int16") }
	case 5:
		v := int32(verif.U32("vi32"))
		w.writeInt32(tag, v)
		want = kkRef(tag, kkLE(uint64(uint32(v)), 4))
		check = func(r *reader) { g, err := r.readint32(tag); verif.Assert(err == nil && g == v, "read-back-int32") }
	case 6:
		v := int64(verif.U64("vi64"))
		w.writeInt64(tag, v)
		want = kkRef(tag, kkLE(uint64(v), 8))
		check = func(r *reader) { g, err := r.readint64(tag); verif.Assert(err == nil && g == v, "read-back-int64") }
	case 7:
		bits := verif.U32("vf32")
		v := math.Float32frombits(bits)
		w.writeFloat32(tag, v)
		want = kkRef(tag, kkLE(uint64(bits), 4))
		check = func(r *reader) {
			g, err := r.readFloat32(tag)
			verif.Assert(err == nil && math.Float32bits(g) == bits, "read-back-float32")
		}
	case 8:
		v := verif.Bool("vb")
		w.writeBool(tag, v)
		one := byte(0)
		if v {
			one = 1
		}
		want = kkRef(tag, []byte{one})
		check = func(r *reader) { g, err := r.readBool(tag); verif.Assert(err == nil && g == v, "read-back-bool") }
	default:
		lens := []int{0, 1, 254, 255, 256, 511}
		v := verif.Bytes("vbytes", lens[verif.Choice("len", len(lens))])
		w.writeBytes(tag, v)
		want = kkRef(tag, v)
		check = func(r *reader) {
			if len(v) == 0 {
				return // an empty value is indistinguishable from an absent one
			}
			g, err := r.readBytes(tag)
			verif.Assert(err == nil && verif.Eq(g, v), "read-back-bytes")
			s := string(v)
			_ = s
		}
	}
	kkWire(w.bytes(), want, "wire-is-little-endian-tlv8")
	r, err := newReader(bytes.NewBuffer(append([]byte{}, want...)))
	verif.Assert(err == nil, "reference-encoding-parses")
	if err == nil {
		p := verif.Panics(func() { check(r) })
		verif.Assert(!p, "nopanic-read-back")
	}
	verif.Reach("end")
}

// Arbitrary bytes: parsing and every typed reader never panic.
func Harness_C17_q_kernels_arbitrary_input() {
	max := 6
	if verif.Thorough() {
		max = 10
	}
	n := verif.Choice("n", max+1)
	raw := verif.Bytes("raw", n)
	verif.MakeCap(max)
	var r *reader
	var err error
	p := verif.Panics(func() { r, err = newReader(bytes.NewBuffer(append([]byte{}, raw...))) })
	verif.Assert(!p, "nopanic-parse")
	if p || err != nil {
		verif.Reach("end")
		return
	}
	tag := verif.U8("tag")
	which := verif.Choice("reader", 10)
	names := []string{"byte", "uint16", "uint32", "uint64", "int16", "int32", "int64", "float32", "bool", "string"}
	verif.Fact("reader", names[which])
	p2 := verif.Panics(func() {
		switch which {
		case 0:
			r.readByte(tag)
		case 1:
			r.readUint16(tag)
		case 2:
			r.readUint32(tag)
		case 3:
			r.readUint64(tag)
		case 4:
			r.readint16(tag)
		case 5:
			r.readint32(tag)
		case 6:
			r.readint64(tag)
		case 7:
			r.readFloat32(tag)
		case 8:
			r.readBool(tag)
		default:
			r.readString(tag)
		}
	})
	verif.Assert(!p2, "nopanic-typed-read-of-arbitrary-input")
	verif.Reach("end")
}

// writeBytes / readBytes for EVERY value length 0..800 (0..3 fragments and beyond): the wire
// is the reference fragmentation and the value comes back.
func Harness_C17_q_bytes_every_length() {
	tag := verif.U8("tag")
	n := verif.Choice("len", 801)
	v := verif.Bytes("v", n)
	w := newWriter()
	w.writeBytes(tag, v)
	if !kkWire(w.bytes(), kkRef(tag, v), "wire-is-little-endian-tlv8") {
		return
	}
	r, err := newReader(bytes.NewBuffer(append([]byte{}, w.bytes()...)))
	verif.Assert(err == nil, "reference-encoding-parses")
	if err == nil && n > 0 {
		g, err := r.readBytes(tag)
		verif.Assert(err == nil && verif.Eq(g, v), "read-back-bytes")
	}
	verif.Reach("end")
}
