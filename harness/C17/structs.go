//hcverif:pkg tlv8
package tlv8

import (
	"math"

	"hcverif/verif"
)

type ssInner struct {
	A uint8  `tlv8:"1"`
	B uint16 `tlv8:"2"`
}

type ssAll struct {
	U8      uint8     `tlv8:"1"`
	U16     uint16    `tlv8:"2"`
	U32     uint32    `tlv8:"3"`
	U64     uint64    `tlv8:"4"`
	I16     int16     `tlv8:"5"`
	I32     int32     `tlv8:"6"`
	I64     int64     `tlv8:"7"`
	F32     float32   `tlv8:"8"`
	B       bool      `tlv8:"9"`
	S       string    `tlv8:"10"`
	Bs      []byte    `tlv8:"11"`
	N       ssInner   `tlv8:"12"`
	L       []ssInner `tlv8:"13"`
	skipped int
}

type ssInline struct {
	Head uint8     `tlv8:"9"`
	L    []ssInner `tlv8:"-"`
}

func ssRefInner(v ssInner) []byte {
	out := kkRef(1, []byte{v.A})
	return append(out, kkRef(2, kkLE(uint64(v.B), 2))...)
}

func ssBool(b bool) byte {
	if b {
		return 1
	}
	return 0
}

// (S) Marshal of a struct with one field of every supported kind, a nested struct and a
// tagged list equals the reference little-endian TLV8 encoding, and Unmarshal returns an
// equal value - for symbolic field values of the full width.
func Harness_C17_q_struct_roundtrip() {
	f32bits := verif.U32("f32")
	// NaN payload bits are not preserved by float32 <-> float64 conversions (signalling NaNs
	// are quieted by the hardware); every other bit pattern must survive
	verif.Assume(math.Float32frombits(f32bits) == math.Float32frombits(f32bits))
	v := ssAll{
		U8: verif.U8("u8"), U16: verif.U16("u16"), U32: verif.U32("u32"), U64: verif.U64("u64"),
		I16: int16(verif.U16("i16")), I32: int32(verif.U32("i32")), I64: int64(verif.U64("i64")),
		F32: math.Float32frombits(f32bits), B: verif.Bool("b"),
		S:  verif.String("s", []int{0, 1, 3}[verif.Choice("slen", 3)]),
		Bs: verif.Bytes("bs", []int{0, 2, 256}[verif.Choice("bslen", 3)]),
		N:  ssInner{verif.U8("n.a"), verif.U16("n.b")},
	}
	nl := verif.Choice("list-len", 3)
	for i := 0; i < nl; i++ {
		id := string(rune('0' + i))
		v.L = append(v.L, ssInner{verif.U8("l" + id + ".a"), verif.U16("l" + id + ".b")})
	}
	enc, err := Marshal(v)
	verif.Assert(err == nil, "marshal-ok")
	if err != nil {
		return
	}
	ref := kkRef(1, []byte{v.U8})
	ref = append(ref, kkRef(2, kkLE(uint64(v.U16), 2))...)
	ref = append(ref, kkRef(3, kkLE(uint64(v.U32), 4))...)
	ref = append(ref, kkRef(4, kkLE(v.U64, 8))...)
	ref = append(ref, kkRef(5, kkLE(uint64(uint16(v.I16)), 2))...)
	ref = append(ref, kkRef(6, kkLE(uint64(uint32(v.I32)), 4))...)
	ref = append(ref, kkRef(7, kkLE(uint64(v.I64), 8))...)
	ref = append(ref, kkRef(8, kkLE(uint64(f32bits), 4))...)
	ref = append(ref, kkRef(9, []byte{ssBool(v.B)})...)
	ref = append(ref, kkRef(10, []byte(v.S))...)
	ref = append(ref, kkRef(11, v.Bs)...)
	ref = append(ref, kkRef(12, ssRefInner(v.N))...)
	for i, e := range v.L {
		if i > 0 {
			ref = append(ref, 0, 0) // list delimiter
		}
		ref = append(ref, kkRef(13, ssRefInner(e))...)
	}
	kkWire(enc, ref, "marshal-equals-reference-encoding")
	var back ssAll
	p := verif.Panics(func() { err = Unmarshal(enc, &back) })
	verif.Assert(!p, "nopanic-unmarshal")
	verif.Assert(p || err == nil, "unmarshal-ok")
	if p || err != nil {
		return
	}
	same := back.U8 == v.U8 && back.U16 == v.U16 && back.U32 == v.U32 && back.U64 == v.U64 &&
		back.I16 == v.I16 && back.I32 == v.I32 && back.I64 == v.I64 && math.Float32bits(back.F32) == f32bits &&
		back.B == v.B && back.S == v.S && verif.Eq(back.Bs, v.Bs) && back.N == v.N
	verif.Assert(same, "roundtrip-scalar-fields-equal")
	verif.Assert(len(back.L) == len(v.L), "roundtrip-list-length")
	if len(back.L) == len(v.L) {
		for i := range v.L {
			verif.Assert(back.L[i] == v.L[i], "roundtrip-list-elements")
		}
	}
	verif.Reach("end")
}

// Inline lists (tag "-"): elements are written into the parent and separated by the
// delimiter item; elements that are not the zero struct come back.
func Harness_C17_q_inline_list_roundtrip() {
	v := ssInline{Head: verif.U8("head")}
	nl := 1 + verif.Choice("list-len", 2)
	for i := 0; i < nl; i++ {
		id := string(rune('0' + i))
		e := ssInner{verif.U8("l" + id + ".a"), verif.U16("l" + id + ".b")}
		verif.Assume(e.A != 0 || e.B != 0) // a zero element is indistinguishable from the end of the list
		v.L = append(v.L, e)
	}
	enc, err := Marshal(v)
	verif.Assert(err == nil, "marshal-ok")
	ref := kkRef(9, []byte{v.Head})
	for i, e := range v.L {
		if i > 0 {
			ref = append(ref, 0, 0)
		}
		ref = append(ref, ssRefInner(e)...)
	}
	kkWire(enc, ref, "inline-list-equals-reference-encoding")
	var back ssInline
	p := verif.Panics(func() { err = Unmarshal(enc, &back) })
	verif.Assert(!p && err == nil, "unmarshal-ok")
	if p || err != nil {
		return
	}
	verif.Assert(back.Head == v.Head && len(back.L) == len(v.L), "inline-list-roundtrip-shape")
	if len(back.L) == len(v.L) {
		for i := range v.L {
			verif.Assert(back.L[i] == v.L[i], "inline-list-roundtrip-elements")
		}
	}
	verif.Reach("end")
}

// Arbitrary bytes into a struct with every field kind: a value or an error, never a panic.
func Harness_C17_q_unmarshal_arbitrary() {
	max := 6
	if verif.Thorough() {
		max = 9
	}
	n := verif.Choice("n", max+1)
	raw := verif.Bytes("raw", n)
	verif.MakeCap(max)
	var back ssAll
	p := verif.Panics(func() { Unmarshal(append([]byte{}, raw...), &back) })
	verif.Assert(!p, "nopanic-unmarshal-arbitrary")
	var back2 ssInline
	p2 := verif.Panics(func() { Unmarshal(append([]byte{}, raw...), &back2) })
	verif.Assert(!p2, "nopanic-unmarshal-arbitrary-inline")
	verif.Reach("end")
}

type ssBig struct {
	Blob []byte `tlv8:"1"`
	N    uint8  `tlv8:"2"`
}

type ssBigList struct {
	Head uint8   `tlv8:"1"`
	L    []ssBig `tlv8:"14"`
}

// Tagged-list elements whose encoding is longer than 255 bytes are themselves fragmented:
// the wire equals the reference encoding and the elements come back.
func Harness_C17_q_large_list_elements() {
	v := ssBigList{Head: verif.U8("head")}
	nl := 1 + verif.Choice("list-len", 2)
	lens := []int{10, 250, 254, 300, 505, 0} // 250 and 505: element payloads of exactly 255 and 510 bytes; 0: a field the encoder omits
	for i := 0; i < nl; i++ {
		id := string(rune('0' + i))
		v.L = append(v.L, ssBig{Blob: verif.Bytes("blob"+id, lens[verif.Choice("bloblen"+id, len(lens))]), N: verif.U8("n" + id)})
	}
	enc, err := Marshal(v)
	verif.Assert(err == nil, "marshal-ok")
	ref := kkRef(1, []byte{v.Head})
	for i, e := range v.L {
		if i > 0 {
			ref = append(ref, 0, 0)
		}
		payload := append(kkRef(1, e.Blob), kkRef(2, []byte{e.N})...)
		ref = append(ref, kkRef(14, payload)...)
	}
	wireOK := kkWire(enc, ref, "large-elements-equal-reference-encoding")
	if !wireOK {
		return // decoding a mis-framed wire adds nothing and is expensive
	}
	var back ssBigList
	p := verif.Panics(func() { err = Unmarshal(enc, &back) })
	verif.Assert(!p && err == nil, "unmarshal-ok")
	if p || err != nil {
		return
	}
	verif.Assert(back.Head == v.Head && len(back.L) == len(v.L), "large-elements-roundtrip-shape")
	if len(back.L) == len(v.L) {
		for i := range v.L {
			verif.Assert(verif.Eq(back.L[i].Blob, v.L[i].Blob) && back.L[i].N == v.L[i].N, "large-elements-roundtrip")
		}
	}
	verif.Reach("end")
}

type ssBlobElem struct {
	Data []byte `tlv8:"1"`
}

type ssBlobInline struct {
	L []ssBlobElem `tlv8:"-"`
}

// Inline list whose elements are byte strings at the fragment boundaries (254, 255, 256,
// 510 bytes: an element that ends in a full 255-byte fragment is followed by the separator
// and the next element).
func Harness_C17_q_inline_list_fragment_boundaries() {
	lens := []int{1, 254, 255, 256, 510}
	var v ssBlobInline
	for i := 0; i < 2; i++ {
		id := string(rune('0' + i))
		v.L = append(v.L, ssBlobElem{Data: verif.Bytes("d"+id, lens[verif.Choice("len"+id, len(lens))])})
	}
	enc, err := Marshal(v)
	verif.Assert(err == nil, "marshal-ok")
	ref := kkRef(1, v.L[0].Data)
	ref = append(ref, 0, 0)
	ref = append(ref, kkRef(1, v.L[1].Data)...)
	if !kkWire(enc, ref, "inline-list-equals-reference-encoding") {
		return
	}
	var back ssBlobInline
	p := verif.Panics(func() { err = Unmarshal(enc, &back) })
	verif.Assert(!p && err == nil, "unmarshal-ok")
	if p || err != nil {
		return
	}
	verif.Assert(len(back.L) == 2, "inline-list-roundtrip-shape")
	if len(back.L) == 2 {
		verif.Assert(verif.Eq(back.L[0].Data, v.L[0].Data) && verif.Eq(back.L[1].Data, v.L[1].Data), "inline-list-roundtrip-elements")
	}
	verif.Reach("end")
}

// One well-formed item with an arbitrary tag and a value of ANY of the listed lengths
// (shorter and longer than every fixed-width field kind, up to a full fragment), optionally
// followed by a second short item: decoding into the struct with every field kind returns a
// value or an error, never a panic.
func Harness_C17_q_unmarshal_item_of_any_length() {
	lens := []int{0, 1, 2, 3, 4, 5, 7, 8, 9, 16, 17, 255}
	tags := []byte{1, 2, 3, 4, 5, 6, 7, 8, 9, 10, 11, 12, 13, 14, 200} // every field of ssAll, and an unknown one
	tag := tags[verif.Choice("tag", len(tags))]
	if tag >= 12 && tag <= 14 {
		lens = []int{0, 1, 2, 3, 5} // nested struct / list fields re-parse the value as TLV8: short values only
	}
	n := lens[verif.Choice("len", len(lens))]
	raw := append([]byte{tag, byte(n)}, verif.Bytes("value", n)...)
	switch verif.Choice("second-item", 3) {
	case 1: // the same tag again (a continuation for a full fragment, a repeated field otherwise)
		raw = append(raw, tag, 1, verif.U8("v2"))
	case 2:
		raw = append(raw, 200, 1, verif.U8("v2"))
	}
	var back ssAll
	p := verif.Panics(func() { Unmarshal(append([]byte{}, raw...), &back) })
	verif.Assert(!p, "nopanic-unmarshal-arbitrary")
	var back2 ssInline
	p2 := verif.Panics(func() { Unmarshal(append([]byte{}, raw...), &back2) })
	verif.Assert(!p2, "nopanic-unmarshal-arbitrary-inline")
	verif.Reach("end")
}
