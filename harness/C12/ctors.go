//hcverif:pkg characteristic
package characteristic

import (
	"hcverif/verif"
)

// For EVERY characteristic constructor of the library (its concrete format and bounds) and a
// remote update with an arbitrary number, short string or boolean: the stored value keeps
// the declared type and stays inside the declared bounds, and the typed getter works.
func Harness_C12_t_every_constructor() {
	c, _ := vvPick()
	if c == nil {
		verif.Reach("end")
		return
	}
	var v interface{}
	switch verif.Choice("kind", 3) {
	case 0:
		v = zzFinite("num")
	case 1:
		v = verif.String("str", verif.Choice("strlen", 3))
	default:
		v = verif.Bool("bool")
	}
	p := verif.Panics(func() { c.UpdateValueFromConnection(v, zzConn{1}) })
	verif.Assert(!p, "nopanic-update")
	if p {
		return
	}
	readable := vvHas(c, PermRead)
	if !readable {
		verif.Assert(c.Value == nil, "write-only-stores-nothing")
		verif.Reach("end")
		return
	}
	switch {
	case c.Format == FormatFloat:
		f, ok := c.Value.(float64)
		verif.Assert(ok, "float-format-holds-float64")
		if ok {
			verif.Assert(verif.And(f == f, f-f == 0), "float-value-is-finite")
			if lo, has := c.MinValue.(float64); has {
				verif.Assert(f >= lo, "float-within-min")
			}
			if hi, has := c.MaxValue.(float64); has {
				verif.Assert(f <= hi, "float-within-max")
			}
		}
	case zzIsIntFormat(c.Format):
		i, ok := c.Value.(int)
		verif.Assert(ok, "int-format-holds-int")
		if ok {
			if lo, has := c.MinValue.(int); has {
				verif.Assert(i >= lo, "int-within-min")
			}
			if hi, has := c.MaxValue.(int); has {
				verif.Assert(i <= hi, "int-within-max")
			}
		}
	case c.Format == FormatBool:
		_, ok := c.Value.(bool)
		verif.Assert(ok, "bool-format-holds-bool")
	default:
		_, ok := c.Value.(string)
		verif.Assert(ok, "string-format-holds-string")
	}
	verif.Reach("end")
}
