//hcverif:pkg characteristic
package characteristic

import (
	"net"
	"time"

	"hcverif/verif"
)

type zzConn struct{ id int }

func (zzConn) Read(b []byte) (int, error)         { return 0, nil }
func (zzConn) Write(b []byte) (int, error)        { return len(b), nil }
func (zzConn) Close() error                       { return nil }
func (zzConn) LocalAddr() net.Addr                { return nil }
func (zzConn) RemoteAddr() net.Addr               { return nil }
func (zzConn) SetDeadline(t time.Time) error      { return nil }
func (zzConn) SetReadDeadline(t time.Time) error  { return nil }
func (zzConn) SetWriteDeadline(t time.Time) error { return nil }

var zzFormats = []string{FormatString, FormatBool, FormatFloat, FormatUInt8, FormatUInt16, FormatUInt32, FormatInt32, FormatUInt64, FormatData, FormatTLV8}

func zzFinite(name string) float64 {
	f := verif.F64(name)
	verif.Assume(verif.And(f == f, f-f == 0)) // neither NaN nor +-Inf
	return f
}

// zzJSONValue returns an arbitrary value of one JSON kind (as encoding/json delivers it
// into an interface{}), or a Go int as a local application would pass.
func zzJSONValue(tag string) (interface{}, string) {
	switch verif.Choice(tag+"-kind", 7) {
	case 0:
		return zzFinite(tag + "-num"), "number"
	case 1:
		// arbitrary short strings, plus concrete spellings of the non-finite floats (the
		// numeric parse of a symbolic string is abstracted to "any float64", these witnesses
		// make such a counterexample reproducible natively)
		wit := []string{"NaN", "+Inf", "-Inf", "1e999"}
		maxLen := 2
		if verif.Thorough() {
			maxLen = 3
		}
		n := verif.Choice(tag+"-strshape", maxLen+1+len(wit))
		if n > maxLen {
			verif.Fact("string", wit[n-maxLen-1])
			return wit[n-maxLen-1], "string"
		}
		verif.Fact("string", "symbolic")
		return verif.String(tag+"-str", n), "string"
	case 2:
		return verif.Bool(tag + "-bool"), "bool"
	case 3:
		return nil, "null"
	case 4:
		return []interface{}{zzFinite(tag + "-elem")}, "array"
	case 5:
		return map[string]interface{}{"k": zzFinite(tag + "-member")}, "object"
	default:
		return int(verif.I64(tag + "-int")), "go-int"
	}
}

func zzIsIntFormat(f string) bool {
	switch f {
	case FormatUInt8, FormatUInt16, FormatUInt32, FormatInt32, FormatUInt64:
		return true
	}
	return false
}

// zzNew builds a characteristic of the given format with optional symbolic bounds and an
// initial value of the declared type inside the bounds.
func zzNew(format string, mode int) *Characteristic {
	hasMin, hasMax := mode == 1 || mode == 2, mode == 1 || mode == 3
	c := NewCharacteristic("zz")
	c.Format = format
	c.Perms = PermsAll()
	switch {
	case format == FormatFloat:
		init := zzFinite("init-f")
		lo, hi := zzFinite("min-f"), zzFinite("max-f")
		verif.Assume(lo <= hi)
		if hasMin {
			verif.Assume(lo <= init)
			c.MinValue = lo
		}
		if hasMax {
			verif.Assume(init <= hi)
			c.MaxValue = hi
		}
		c.Value = init
	case zzIsIntFormat(format):
		init := int(verif.I64("init-i"))
		lo, hi := int(verif.I64("min-i")), int(verif.I64("max-i"))
		verif.Assume(lo <= hi)
		if hasMin {
			verif.Assume(lo <= init)
			c.MinValue = lo
		}
		if hasMax {
			verif.Assume(init <= hi)
			c.MaxValue = hi
		}
		c.Value = init
	case format == FormatBool:
		c.Value = verif.Bool("init-b")
	default:
		c.Value = verif.String("init-s", 2)
	}
	return c
}

// zzCheck asserts the declared-type-and-range invariant and that the typed getter works.
func zzCheck(c *Characteristic, when string) {
	switch {
	case c.Format == FormatFloat:
		f, ok := c.Value.(float64)
		verif.Assert(ok, "float-format-holds-float64"+when)
		if ok {
			verif.Assert(verif.And(f == f, f-f == 0), "float-value-is-finite"+when) // NaN/Inf are not JSON-encodable
			if lo, has := c.MinValue.(float64); has {
				verif.Assert(lo <= f, "float-not-below-min"+when)
			}
			if hi, has := c.MaxValue.(float64); has {
				verif.Assert(f <= hi, "float-not-above-max"+when)
			}
			p := verif.Panics(func() { _ = (&Float{c}).GetValue() })
			verif.Assert(!p, "nopanic-float-getter"+when)
		}
	case zzIsIntFormat(c.Format):
		i, ok := c.Value.(int)
		verif.Assert(ok, "int-format-holds-int"+when)
		if ok {
			if lo, has := c.MinValue.(int); has {
				verif.Assert(lo <= i, "int-not-below-min"+when)
			}
			if hi, has := c.MaxValue.(int); has {
				verif.Assert(i <= hi, "int-not-above-max"+when)
			}
			p := verif.Panics(func() { _ = (&Int{c}).GetValue() })
			verif.Assert(!p, "nopanic-int-getter"+when)
		}
	case c.Format == FormatBool:
		_, ok := c.Value.(bool)
		verif.Assert(ok, "bool-format-holds-bool"+when)
		p := verif.Panics(func() { _ = (&Bool{c}).GetValue() })
		verif.Assert(!p, "nopanic-bool-getter"+when)
	default:
		_, ok := c.Value.(string)
		verif.Assert(ok, "string-format-holds-string"+when)
		p := verif.Panics(func() { _ = (&String{c}).GetValue() })
		verif.Assert(!p, "nopanic-string-getter"+when)
	}
}

// For every format, optional symbolic bounds, a pre-state of the declared type inside the
// bounds, and an update (local or remote) with an arbitrary JSON-like value, repeated once
// with the identical value: no panic; afterwards the value has the declared type, lies in
// [min,max], and the typed getter works.
func Harness_C12_q_type_and_range() {
	format := zzFormats[verif.Choice("format", len(zzFormats))]
	mode := 0 // 0 no bounds, 1 min and max, 2 min only, 3 max only
	if format == FormatFloat || zzIsIntFormat(format) {
		mode = verif.Choice("bounds", 4)
	}
	verif.Fact("bounds", []string{"none", "min+max", "min-only", "max-only"}[mode])
	c := zzNew(format, mode)
	v, kind := zzJSONValue("v")
	// conversion and clamping do not depend on the origin of the update; the quick tier
	// drives the remote entry point only (local updates: thorough tier, C09 and C11)
	remote := true
	if verif.Thorough() {
		remote = verif.Choice("remote", 2) == 1
	}
	verif.Fact("format", format)
	verif.Fact("kind", kind)
	update := func() {
		if remote {
			c.UpdateValueFromConnection(v, zzConn{1})
		} else {
			c.UpdateValue(v)
		}
	}
	p1 := verif.Panics(update)
	verif.Assert(!p1, "nopanic-update")
	if p1 {
		return
	}
	zzCheck(c, "")
	if kind != "array" && kind != "object" && kind != "number" {
		verif.Reach("end")
		return
	}
	p2 := verif.Panics(update)
	verif.Assert(!p2, "nopanic-repeated-update")
	if p2 {
		return
	}
	zzCheck(c, "-after-repeat")
	verif.Reach("end")
}

// The application answers reads through a value-get callback (OnValueGet): whatever the
// callback returns - any JSON-like value - what is stored and handed to the reader has the
// declared type and lies within the declared bounds, exactly as for a direct update.
func Harness_C12_q_value_from_get_callback() {
	format := zzFormats[verif.Choice("format", len(zzFormats))]
	mode := 1
	verif.Fact("bounds", "min+max")
	c := zzNew(format, mode)
	v, kind := zzJSONValue("v")
	verif.Fact("format", format)
	verif.Fact("kind", kind)
	c.OnValueGet(func() interface{} { return v })
	p := verif.Panics(func() { c.GetValueFromConnection(zzConn{1}) })
	verif.Assert(!p, "nopanic-read-with-get-callback")
	if p {
		return
	}
	zzCheck(c, "")
	verif.Reach("end")
}
