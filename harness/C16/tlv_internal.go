//hcverif:pkg util
package util

import (
	"bytes"

	"hcverif/verif"
)

// (this file looks at the unexported item list of the container; when that representation
// changes the file no longer type-checks and is dropped, the API-level harnesses in tlv.go stay)

// Arbitrary bytes as parser input: never panics, and either errors or yields exactly the
// items a reference parser finds (so every value is a sub-slice of the input).
func Harness_C16_q_parse_arbitrary() {
	max := 8
	if verif.Thorough() {
		max = 12
	}
	n := verif.Choice("n", max+1)
	raw := verif.Bytes("raw", n)
	verif.MakeCap(max)
	var cont Container
	var err error
	p := verif.Panics(func() {
		cont, err = NewTLV8ContainerFromReader(bytes.NewBuffer(append([]byte{}, raw...)))
	})
	verif.Assert(!p, "nopanic-parse")
	if p {
		return
	}
	items, ok := refParse(raw)
	// a well-formed input must parse (it may be the serialisation of a container)
	verif.Assert(!ok || err == nil, "well-formed-input-parses")
	// accepting an input that ends inside an item is not what this parser does today, but the
	// property only demands "succeeds or errors, and yields nothing that was not in the input"
	verif.Assert(ok || err != nil, "inv:truncated-input-is-an-error")
	if err != nil {
		verif.Reach("end")
		return
	}
	got := cont.(*tlv8Container).Items
	if ok {
		verif.Assert(len(got) == len(items), "item-count")
		if len(got) != len(items) {
			return
		}
		for i := range got {
			verif.Assert(got[i].tag == items[i].tag, "item-tag")
			verif.Assert(int(got[i].length) == len(items[i].val), "item-length")
			verif.Assert(verif.Eq(got[i].value, items[i].val), "item-value-is-input-slice")
		}
	} else {
		// lenient acceptance of a truncated input: every item still is a piece of the input,
		// in order
		off := 0
		for i := range got {
			fits := off+2+len(got[i].value) <= len(raw)
			verif.Assert(fits, "item-value-is-input-slice")
			if !fits {
				return
			}
			verif.Assert(got[i].tag == raw[off], "item-tag")
			verif.Assert(verif.Eq(got[i].value, raw[off+2:off+2+len(got[i].value)]), "item-value-is-input-slice")
			off += 2 + len(got[i].value)
		}
	}
	// getters on arbitrary parsed input do not panic either
	q := verif.U8("qtag")
	p2 := verif.Panics(func() {
		_ = cont.GetBytes(q)
		_ = cont.GetByte(q)
		_ = cont.GetString(q)
	})
	verif.Assert(!p2, "nopanic-getters")
	verif.Reach("end")
}
