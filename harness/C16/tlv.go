//hcverif:pkg util
package util

import (
	"bytes"

	"hcverif/verif"
)

// refEncode is the reference TLV8 encoder written from the HAP specification (TLV rules):
// a value is split into contiguous fragments with the same type; every fragment has a
// non-zero length; only the last fragment may be shorter than 255 bytes.
func refEncode(tag byte, v []byte) []byte {
	out := []byte{}
	for len(v) > 0 {
		n := len(v)
		if n > 255 {
			n = 255
		}
		out = append(out, tag, byte(n))
		out = append(out, v[:n]...)
		v = v[n:]
	}
	return out
}

// refCanon is what a standard TLV8 parser makes of a wire: items are read one after the
// other, adjacent items of the same type are one value (fragments), and the result is
// written back in the strict reference form. Two wires with the same canonical form carry
// the same values for every standard peer. ok is false when the wire is not a sequence of
// complete items.
func refCanon(wire []byte) (canon []byte, ok bool) {
	items, ok := refParse(wire)
	if !ok {
		return nil, false
	}
	// an empty item carries nothing for this container (Get* concatenates per type)
	kept := items[:0:0]
	for _, it := range items {
		if len(it.val) > 0 {
			kept = append(kept, it)
		}
	}
	items = kept
	canon = []byte{}
	for i := 0; i < len(items); {
		tag := items[i].tag
		val := []byte{}
		j := i
		for j < len(items) && items[j].tag == tag {
			val = append(val, items[j].val...)
			j++
		}
		canon = append(canon, refEncode(tag, val)...)
		i = j
	}
	return canon, true
}

// wireOK: the bytes written are a standard fragmentation of the reference (alarm), and they
// are the reference byte for byte (internal expectation only: a different but equivalent
// fragmentation, e.g. a trailing empty fragment, is not a violation of the property).
func wireOK(enc, ref []byte) {
	verif.Assert(verif.Eq(enc, ref), "inv:wire-equals-reference")
	ce, ok1 := refCanon(enc)
	cr, ok2 := refCanon(ref)
	verif.Assert(ok1 && ok2 && verif.Eq(ce, cr), "wire-is-a-standard-fragmentation-of-the-values")
}

func Harness_C16_q_roundtrip_one() {
	lens := []int{0, 1, 2, 254, 255, 256, 509, 510, 511, 600}
	_ = lens
	n := verif.Choice("len", 1101) // every length 0..1100 (the property says 0..1024 exhaustively)
	tag := verif.U8("tag")
	val := verif.Bytes("val", n)
	c := NewTLV8Container()
	c.SetBytes(tag, val)
	enc := c.BytesBuffer().Bytes()
	wireOK(enc, refEncode(tag, val))
	back, err := NewTLV8ContainerFromReader(bytes.NewBuffer(enc))
	verif.Assert(err == nil, "reparse-ok")
	if err != nil {
		return
	}
	verif.Assert(verif.Eq(back.GetBytes(tag), val), "roundtrip-value")
	q := verif.U8("qtag")
	verif.Assume(q != tag)
	verif.Assert(len(back.GetBytes(q)) == 0, "other-tag-empty")
	verif.Reach("end")
}

// Several sets with symbolic (possibly equal) tags: serialise, compare with the reference
// encoding, parse back and compare, for a symbolic query tag, with the concatenation of
// the values set for that tag in order.
func Harness_C16_q_roundtrip_multi() {
	lens := []int{0, 1, 255, 256}
	k := 3
	if verif.Thorough() {
		lens = []int{0, 1, 254, 255, 256, 511}
	}
	c := NewTLV8Container()
	var ref []byte
	tags := make([]byte, k)
	vals := make([][]byte, k)
	for i := 0; i < k; i++ {
		n := lens[verif.Choice("len"+string(rune('0'+i)), len(lens))]
		tags[i] = verif.U8("tag" + string(rune('0'+i)))
		vals[i] = verif.Bytes("val"+string(rune('0'+i)), n)
		c.SetBytes(tags[i], vals[i])
		ref = append(ref, refEncode(tags[i], vals[i])...)
	}
	enc := c.BytesBuffer().Bytes()
	wireOK(enc, ref)
	back, err := NewTLV8ContainerFromReader(bytes.NewBuffer(enc))
	verif.Assert(err == nil, "reparse-ok")
	if err != nil {
		return
	}
	q := verif.U8("qtag")
	exp := []byte{}
	for i := 0; i < k; i++ {
		if tags[i] == q {
			exp = append(exp, vals[i]...)
		}
	}
	verif.Assert(verif.Eq(c.GetBytes(q), exp), "get-before-serialise")
	verif.Assert(verif.Eq(back.GetBytes(q), exp), "get-after-reparse")
	if len(exp) > 0 {
		verif.Assert(back.GetByte(q) == exp[0], "getbyte-first")
	}
	verif.Reach("end")
}

type refItem struct {
	tag byte
	val []byte
}

// refParse is the reference TLV8 parser: items until the input is exhausted; an input that
// ends inside an item is an error.
func refParse(raw []byte) (items []refItem, ok bool) {
	for len(raw) > 0 {
		if len(raw) < 2 {
			return nil, false
		}
		tag, n := raw[0], int(raw[1])
		raw = raw[2:]
		if len(raw) < n {
			return nil, false
		}
		items = append(items, refItem{tag, raw[:n]})
		raw = raw[n:]
	}
	return items, true
}

// Arbitrary bytes as parser input, through the exported API only: never panics; a
// well-formed input parses; and for every query tag the bytes returned are the
// concatenation of the reference parser's items with that tag (nothing invented).
func Harness_C16_q_parse_arbitrary_api() {
	max := 8
	if verif.Thorough() {
		max = 12
	}
	n := verif.Choice("n", max+1)
	raw := verif.Bytes("raw", n)
	verif.MakeCap(max)
	var cont Container
	var err error
	p := verif.Panics(func() {
		cont, err = NewTLV8ContainerFromReader(bytes.NewBuffer(append([]byte{}, raw...)))
	})
	verif.Assert(!p, "nopanic-parse")
	if p {
		return
	}
	items, ok := refParse(raw)
	verif.Assert(!ok || err == nil, "well-formed-input-parses")
	if err != nil || !ok {
		verif.Reach("end")
		return
	}
	q := verif.U8("qtag")
	want := []byte{}
	for _, it := range items {
		if it.tag == q {
			want = append(want, it.val...)
		}
	}
	var got []byte
	p2 := verif.Panics(func() {
		got = cont.GetBytes(q)
		_ = cont.GetByte(q)
		_ = cont.GetString(q)
	})
	verif.Assert(!p2, "nopanic-getters")
	if !p2 {
		verif.Assert(verif.Eq(got, want), "parsed-values-are-the-input-items")
	}
	verif.Reach("end")
}
