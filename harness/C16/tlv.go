//hcverif:pkg util
package util

import (
	"bytes"

	"hcverif/verif"
)

// refEncode is the reference TLV8 encoder written from the HAP specification (TLV rules):
// a value is split into contiguous fragments with the same type; every fragment has a
// non-zero length; only the last fragment may be shorter than 255 bytes.
func refEncode(tag byte, v []byte) []byte {
	out := []byte{}
	for len(v) > 0 {
		n := len(v)
		if n > 255 {
			n = 255
		}
		out = append(out, tag, byte(n))
		out = append(out, v[:n]...)
		v = v[n:]
	}
	return out
}

func Harness_C16_q_roundtrip_one() {
	lens := []int{0, 1, 2, 254, 255, 256, 509, 510, 511, 600}
	if verif.Thorough() {
		lens = append(lens, 765, 766, 1020, 1024, 1100)
	}
	n := lens[verif.Choice("len", len(lens))]
	tag := verif.U8("tag")
	val := verif.Bytes("val", n)
	c := NewTLV8Container()
	c.SetBytes(tag, val)
	enc := c.BytesBuffer().Bytes()
	verif.Assert(verif.Eq(enc, refEncode(tag, val)), "wire-equals-reference")
	back, err := NewTLV8ContainerFromReader(bytes.NewBuffer(enc))
	verif.Assert(err == nil, "reparse-ok")
	if err != nil {
		return
	}
	verif.Assert(verif.Eq(back.GetBytes(tag), val), "roundtrip-value")
	q := verif.U8("qtag")
	verif.Assume(q != tag)
	verif.Assert(len(back.GetBytes(q)) == 0, "other-tag-empty")
	verif.Reach("end")
}
