//hcverif:pkg util
package util

import (
	"bytes"

	"hcverif/verif"
)

// refEncode is the reference TLV8 encoder written from the HAP specification (TLV rules):
// a value is split into contiguous fragments with the same type; every fragment has a
// non-zero length; only the last fragment may be shorter than 255 bytes.
func refEncode(tag byte, v []byte) []byte {
	out := []byte{}
	for len(v) > 0 {
		n := len(v)
		if n > 255 {
			n = 255
		}
		out = append(out, tag, byte(n))
		out = append(out, v[:n]...)
		v = v[n:]
	}
	return out
}

func Harness_C16_q_roundtrip_one() {
	lens := []int{0, 1, 2, 254, 255, 256, 509, 510, 511, 600}
	if verif.Thorough() {
		lens = append(lens, 765, 766, 1020, 1024, 1100)
	}
	n := lens[verif.Choice("len", len(lens))]
	tag := verif.U8("tag")
	val := verif.Bytes("val", n)
	c := NewTLV8Container()
	c.SetBytes(tag, val)
	enc := c.BytesBuffer().Bytes()
	verif.Assert(verif.Eq(enc, refEncode(tag, val)), "wire-equals-reference")
	back, err := NewTLV8ContainerFromReader(bytes.NewBuffer(enc))
	verif.Assert(err == nil, "reparse-ok")
	if err != nil {
		return
	}
	verif.Assert(verif.Eq(back.GetBytes(tag), val), "roundtrip-value")
	q := verif.U8("qtag")
	verif.Assume(q != tag)
	verif.Assert(len(back.GetBytes(q)) == 0, "other-tag-empty")
	verif.Reach("end")
}

// Several sets with symbolic (possibly equal) tags: serialise, compare with the reference
// encoding, parse back and compare, for a symbolic query tag, with the concatenation of
// the values set for that tag in order.
func Harness_C16_q_roundtrip_multi() {
	lens := []int{0, 1, 255, 256}
	k := 3
	if verif.Thorough() {
		lens = []int{0, 1, 254, 255, 256, 511}
	}
	c := NewTLV8Container()
	var ref []byte
	tags := make([]byte, k)
	vals := make([][]byte, k)
	for i := 0; i < k; i++ {
		n := lens[verif.Choice("len"+string(rune('0'+i)), len(lens))]
		tags[i] = verif.U8("tag" + string(rune('0'+i)))
		vals[i] = verif.Bytes("val"+string(rune('0'+i)), n)
		c.SetBytes(tags[i], vals[i])
		ref = append(ref, refEncode(tags[i], vals[i])...)
	}
	enc := c.BytesBuffer().Bytes()
	verif.Assert(verif.Eq(enc, ref), "wire-equals-reference")
	back, err := NewTLV8ContainerFromReader(bytes.NewBuffer(enc))
	verif.Assert(err == nil, "reparse-ok")
	if err != nil {
		return
	}
	q := verif.U8("qtag")
	exp := []byte{}
	for i := 0; i < k; i++ {
		if tags[i] == q {
			exp = append(exp, vals[i]...)
		}
	}
	verif.Assert(verif.Eq(c.GetBytes(q), exp), "get-before-serialise")
	verif.Assert(verif.Eq(back.GetBytes(q), exp), "get-after-reparse")
	if len(exp) > 0 {
		verif.Assert(back.GetByte(q) == exp[0], "getbyte-first")
	}
	verif.Reach("end")
}

type refItem struct {
	tag byte
	val []byte
}

// refParse is the reference TLV8 parser: items until the input is exhausted; an input that
// ends inside an item is an error.
func refParse(raw []byte) (items []refItem, ok bool) {
	for len(raw) > 0 {
		if len(raw) < 2 {
			return nil, false
		}
		tag, n := raw[0], int(raw[1])
		raw = raw[2:]
		if len(raw) < n {
			return nil, false
		}
		items = append(items, refItem{tag, raw[:n]})
		raw = raw[n:]
	}
	return items, true
}

// Arbitrary bytes as parser input: never panics, and either errors or yields exactly the
// items a reference parser finds (so every value is a sub-slice of the input).
func Harness_C16_q_parse_arbitrary() {
	max := 8
	if verif.Thorough() {
		max = 12
	}
	n := verif.Choice("n", max+1)
	raw := verif.Bytes("raw", n)
	verif.MakeCap(max)
	var cont Container
	var err error
	p := verif.Panics(func() {
		cont, err = NewTLV8ContainerFromReader(bytes.NewBuffer(append([]byte{}, raw...)))
	})
	verif.Assert(!p, "nopanic-parse")
	if p {
		return
	}
	items, ok := refParse(raw)
	verif.Assert((err == nil) == ok, "error-iff-truncated")
	if err != nil {
		verif.Reach("end")
		return
	}
	got := cont.(*tlv8Container).Items
	verif.Assert(len(got) == len(items), "item-count")
	if len(got) != len(items) {
		return
	}
	for i := range got {
		verif.Assert(got[i].tag == items[i].tag, "item-tag")
		verif.Assert(int(got[i].length) == len(items[i].val), "item-length")
		verif.Assert(verif.Eq(got[i].value, items[i].val), "item-value-is-input-slice")
	}
	// getters on arbitrary parsed input do not panic either
	q := verif.U8("qtag")
	p2 := verif.Panics(func() {
		_ = cont.GetBytes(q)
		_ = cont.GetByte(q)
		_ = cont.GetString(q)
	})
	verif.Assert(!p2, "nopanic-getters")
	verif.Reach("end")
}
