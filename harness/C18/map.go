//hcverif:pkg util
package util

import (
	"hcverif/verif"
)

func c18MaxVal() int {
	if verif.Thorough() {
		return 5
	}
	return 3
}

// fileStorage keeps no state but its directory, so histories reduce to single operations
// from an ARBITRARY directory state: two pre-existing files with symbolic names and
// contents (one may be the key under test), then Set / Get / Delete / listing, and a fresh
// store on the same directory must see the same (persistence across restarts).
func Harness_C18_q_storage_is_a_map() {
	dir := verif.TempDir("c18")
	k := ssKey("k")
	other := ssKey("o")
	verif.Assume(other != k)
	oldOther := ssVal("other-old", 2)
	ssPre(dir, other, oldOther)
	hadOld := verif.Choice("k-exists", 2) == 1
	var old []byte
	if hadOld {
		old = ssVal("old", c18MaxVal())
		ssPre(dir, k, old)
	}
	if verif.Choice("stale-tmp", 2) == 1 {
		ssPre(dir, k+".tmp", ssVal("stale", 3)) // leftover of an earlier interrupted write
	}
	st, err := NewFileStorage(dir)
	verif.Assert(err == nil, "storage-opens")
	// pre-state is visible
	if hadOld {
		g, err := st.Get(k)
		verif.Assert(err == nil && verif.Eq(g, old), "get-returns-existing-value")
	} else {
		_, err := st.Get(k)
		verif.Assert(err != nil, "get-of-missing-key-errors")
	}
	switch verif.Choice("op", 2) {
	case 0: // Set (create or overwrite with a shorter / equal / longer value)
		nv := ssVal("new", c18MaxVal())
		verif.Assert(st.Set(k, nv) == nil, "set-ok")
		g, err := st.Get(k)
		verif.Assert(err == nil && verif.Eq(g, nv), "get-returns-last-value-set")
		st2, _ := NewFileStorage(dir)
		g2, err2 := st2.Get(k)
		verif.Assert(err2 == nil && verif.Eq(g2, nv), "value-survives-reopen")
		keys, err := st.KeysWithSuffix(".e")
		verif.Assert(err == nil, "listing-ok")
		want := 0
		if len(k) == 3 {
			want++
		}
		if len(other) == 3 {
			want++
		}
		verif.Assert(len(keys) == want, "listing-is-exactly-the-live-keys-with-suffix")
		for _, x := range keys {
			verif.Assert(x == k || x == other, "listing-names-are-live-keys")
		}
	case 1: // Delete
		err := st.Delete(k)
		verif.Assert((err == nil) == hadOld, "delete-errors-iff-missing")
		_, gerr := st.Get(k)
		verif.Assert(gerr != nil, "get-after-delete-is-not-found")
		keys, _ := st.KeysWithSuffix(".e")
		for _, x := range keys {
			verif.Assert(x != k, "deleted-key-not-listed")
		}
	}
	go2, err := st.Get(other)
	verif.Assert(err == nil && verif.Eq(go2, oldOther), "other-keys-untouched")
	verif.Reach("end")
}

// Histories from the empty store: Set; Set (overwrite); Delete; Set again.
func Harness_C18_q_history_from_empty() {
	dir := verif.TempDir("c18h")
	st, _ := NewFileStorage(dir)
	k := ssKey("k")
	v1, v2, v3 := ssVal("v1", c18MaxVal()), ssVal("v2", c18MaxVal()), ssVal("v3", 2)
	st.Set(k, v1)
	st.Set(k, v2)
	g, err := st.Get(k)
	verif.Assert(err == nil && verif.Eq(g, v2), "overwrite-returns-second-value")
	st.Delete(k)
	_, err = st.Get(k)
	verif.Assert(err != nil, "deleted-is-not-found")
	st.Set(k, v3)
	st2, _ := NewFileStorage(dir)
	g, err = st2.Get(k)
	verif.Assert(err == nil && verif.Eq(g, v3), "set-after-delete-returns-new-value")
	verif.Reach("end")
}

// Overwrites on ONE storage handle across size classes (a single byte, just over the
// 32-byte read chunk, 1024 and 1025 bytes): after every Set the same handle, and a fresh one,
// return the value last set - whatever an implementation keeps in memory between calls.
func Harness_C18_q_overwrite_size_classes() {
	dir := verif.TempDir("c18o")
	st, _ := NewFileStorage(dir)
	k := ssKey("k")
	lens := []int{1, 33, 1024, 1025}
	v1 := verif.Bytes("v1", lens[verif.Choice("len1", len(lens))])
	v2 := verif.Bytes("v2", lens[verif.Choice("len2", len(lens))])
	verif.Assert(st.Set(k, v1) == nil, "set-ok")
	if verif.Choice("read-between", 2) == 1 {
		g, err := st.Get(k)
		verif.Assert(err == nil && verif.Eq(g, v1), "get-returns-first-value")
	}
	verif.Assert(st.Set(k, v2) == nil, "set-ok")
	g, err := st.Get(k)
	verif.Assert(err == nil && verif.Eq(g, v2), "same-handle-returns-last-value-set")
	st2, _ := NewFileStorage(dir)
	g2, err2 := st2.Get(k)
	verif.Assert(err2 == nil && verif.Eq(g2, v2), "fresh-handle-returns-last-value-set")
	if verif.Choice("then-delete", 2) == 1 {
		verif.Assert(st.Delete(k) == nil, "delete-ok")
		_, err = st.Get(k)
		verif.Assert(err != nil, "same-handle-deleted-is-not-found")
		st3, _ := NewFileStorage(dir)
		_, err = st3.Get(k)
		verif.Assert(err != nil, "reopened-deleted-is-not-found")
		// a handle that was opened BEFORE the delete and is still in use: the property speaks
		// of re-opening, not of coherence between live handles (internal expectation only)
		_, err = st2.Get(k)
		verif.Assert(err != nil, "inv:older-handle-sees-the-delete")
	}
	verif.Reach("end")
}

// One Set / Get / reopen / Get for EVERY value length 0..4096 (the property's range).
func Harness_C18_q_every_value_length() {
	dir := verif.TempDir("c18l")
	st, _ := NewFileStorage(dir)
	n := verif.Choice("len", 4097)
	v := verif.Bytes("v", n)
	verif.Assert(st.Set("k.e", v) == nil, "set-ok")
	g, err := st.Get("k.e")
	verif.Assert(err == nil && verif.Eq(g, v), "get-returns-last-value-set")
	st2, _ := NewFileStorage(dir)
	g2, err2 := st2.Get("k.e")
	verif.Assert(err2 == nil && verif.Eq(g2, v), "value-survives-reopen")
	verif.Reach("end")
}
