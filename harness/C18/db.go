//hcverif:pkg db
package db

import (
	"github.com/brutella/hc/util"

	"hcverif/verif"
)

func ddName(tag string) string {
	lens := []int{0, 1, 2}
	if verif.Thorough() {
		lens = []int{0, 1, 2, 36, 100}
	}
	s := verif.String(tag, lens[verif.Choice(tag+"-len", len(lens))])
	// names are UTF-8 text (HAP identifiers); every ASCII byte - '/', ':', '.', NUL, control
	// characters included - is allowed. Non-UTF-8 names: see Harness_C18_q_non_utf8_name.
	for i := 0; i < len(s); i++ {
		verif.Assume(s[i] < 0x80)
	}
	return s
}

// The pairing database over the real file storage behaves like a map keyed by entity name,
// for names of arbitrary ASCII bytes (including '/', ':', '.', NUL): save, overwrite, look-up,
// delete and listing against a reference map; a second database object on the same
// directory sees the same.
func Harness_C18_q_database_is_a_map() {
	dir := verif.TempDir("c18db")
	st, err := util.NewFileStorage(dir)
	verif.Assert(err == nil, "storage-opens")
	d := NewDatabaseWithStorage(st)
	n1, n2 := ddName("name1"), ddName("name2")
	k1, k2 := verif.Bytes("key1", 32), verif.Bytes("key2", 32)
	verif.Assert(d.SaveEntity(NewEntity(n1, k1, nil)) == nil, "save-1")
	verif.Assert(d.SaveEntity(NewEntity(n2, k2, verif.Bytes("priv2", 4))) == nil, "save-2")
	same := n1 == n2
	e, err := d.EntityWithName(n1)
	verif.Assert(err == nil && e.Name == n1, "lookup-1-found")
	if same {
		verif.Assert(verif.Eq(e.PublicKey, k2), "same-name-overwrites")
	} else {
		verif.Assert(verif.Eq(e.PublicKey, k1), "distinct-names-do-not-collide")
	}
	e2, err := d.EntityWithName(n2)
	verif.Assert(err == nil && verif.Eq(e2.PublicKey, k2) && len(e2.PrivateKey) == 4, "lookup-2-found")
	es, err := d.Entities()
	want := 2
	if same {
		want = 1
	}
	verif.Assert(err == nil && len(es) == want, "listing-counts-live-entities")
	// restart
	st2, _ := util.NewFileStorage(dir)
	d2 := NewDatabaseWithStorage(st2)
	e3, err := d2.EntityWithName(n2)
	verif.Assert(err == nil && verif.Eq(e3.PublicKey, k2), "entity-survives-reopen")
	// delete
	d2.DeleteEntity(NewEntity(n1, nil, nil))
	_, err = d2.EntityWithName(n1)
	verif.Assert(err != nil, "deleted-entity-not-found")
	es, _ = d.Entities()
	if same {
		verif.Assert(len(es) == 0, "listing-after-delete")
	} else {
		verif.Assert(len(es) == 1 && es[0].Name == n2, "listing-after-delete-keeps-the-other")
	}
	verif.Reach("end")
}

// Entity names that are not valid UTF-8: the entity is stored as JSON text, which cannot
// carry such a name, so the name that comes back differs from the one saved.
func Harness_C18_q_non_utf8_name() {
	dir := verif.TempDir("c18utf")
	st, _ := util.NewFileStorage(dir)
	d := NewDatabaseWithStorage(st)
	name := "ctrl-\xff\xfe"
	verif.Fact("name", "non-utf8")
	verif.Assert(d.SaveEntity(NewEntity(name, verif.Bytes("key", 32), nil)) == nil, "save")
	e, err := d.EntityWithName(name)
	verif.Assert(err == nil, "lookup-found")
	verif.Assert(e.Name == name, "non-utf8-name-round-trips")
	verif.Reach("end")
}
