//hcverif:pkg .
package hc

import (
	"github.com/brutella/hc/db"
	"github.com/brutella/hc/event"
	"github.com/brutella/hc/hap"
	"github.com/brutella/hc/util"

	"hcverif/verif"
)

// (c) One start from an ARBITRARY storage state: the configuration number goes up by
// exactly one iff a stored hash exists and differs from the new one; id, number and hash
// persist and are read back by the next start.
func Harness_C20_q_config_version() {
	dir := verif.TempDir("c20cfg")
	st, _ := util.NewFileStorage(dir)
	hasVersion := verif.Choice("has-version", 2) == 1
	stored := int64(1)
	if hasVersion {
		nd := 1 + verif.Choice("version-digits", 2)
		d := verif.Bytes("version", nd)
		stored = 0
		for i := range d {
			verif.Assume(d[i] >= '0' && d[i] <= '9')
			stored = stored*10 + int64(d[i]-'0')
		}
		st.Set("version", d)
	}
	hasHash := verif.Choice("has-hash", 2) == 1
	oldHash := verif.Bytes("old-hash", 16)
	if hasHash {
		st.Set("configHash", oldHash)
	}
	hasID := verif.Choice("has-id", 2) == 1
	if hasID {
		st.Set("uuid", []byte("AA:BB:CC:DD:EE:FF"))
	}
	cfg := &Config{id: "11:22:33:44:55:66", version: 1}
	cfg.load(st)
	verif.Assert(cfg.version == stored, "stored-number-is-loaded")
	newHash := verif.Bytes("new-hash", 16)
	cfg.updateConfigHash(newHash)
	cfg.save(st)
	want := stored
	if hasHash && !verif.Eq(oldHash, newHash) {
		want++
	}
	verif.Assert(cfg.version == want, "number-increases-exactly-when-the-structure-hash-changed")
	wantID := "11:22:33:44:55:66"
	if hasID {
		wantID = "AA:BB:CC:DD:EE:FF"
	}
	verif.Assert(cfg.id == wantID, "stored-id-wins")
	// next start on the same storage
	st2, _ := util.NewFileStorage(dir)
	next := &Config{id: "77:88:99:AA:BB:CC", version: 1}
	next.load(st2)
	verif.Assert(next.version == want && next.id == wantID && verif.Eq(next.configHash, newHash), "id-number-hash-persist")
	next.updateConfigHash(newHash)
	verif.Assert(next.version == want, "unchanged-structure-keeps-the-number")
	verif.Reach("end")
}

// (d) The device identity: an existing entity is returned unchanged and nothing is
// regenerated; otherwise a fresh key pair is stored and every later start returns it.
func Harness_C20_q_device_identity() {
	dir := verif.TempDir("c20dev")
	st, _ := util.NewFileStorage(dir)
	database := db.NewDatabaseWithStorage(st)
	name := "AA:BB:CC:DD:EE:FF"
	existing := verif.Choice("existing", 2) == 1
	pub, priv := verif.Bytes("pub", 32), verif.Bytes("priv", 64)
	if existing {
		database.SaveEntity(db.NewEntity(name, pub, priv))
	}
	d1, err := hap.NewSecuredDevice(name, "001-02-003", database)
	verif.Assert(err == nil && d1 != nil, "device-created")
	if existing {
		verif.Assert(verif.Eq(d1.PublicKey(), pub) && verif.Eq(d1.PrivateKey(), priv), "existing-identity-kept")
	} else {
		verif.Assert(len(d1.PublicKey()) == 32 && len(d1.PrivateKey()) == 64, "fresh-key-pair")
	}
	// restart
	st2, _ := util.NewFileStorage(dir)
	d2, err := hap.NewSecuredDevice(name, "001-02-003", db.NewDatabaseWithStorage(st2))
	verif.Assert(err == nil && verif.Eq(d2.PublicKey(), d1.PublicKey()) && verif.Eq(d2.PrivateKey(), d1.PrivateKey()), "identity-survives-restart")
	es, _ := database.Entities()
	verif.Assert(len(es) == 1, "one-device-entity")
	verif.Reach("end")
}

// (e) Discoverability: sf = 1 exactly when no controller pairing is stored (the
// accessory's own entity does not count); pair / unpair events update it.
func Harness_C20_q_discoverable_flag() {
	dir := verif.TempDir("c20sf")
	st, _ := util.NewFileStorage(dir)
	database := db.NewDatabaseWithStorage(st)
	database.SaveEntity(db.NewEntity("AA:BB:CC:DD:EE:FF", make([]byte, 32), make([]byte, 64)))
	n := verif.Choice("controllers", 3)
	for i := 0; i < n; i++ {
		database.SaveEntity(db.NewEntity("ctrl-"+string(rune('0'+i)), verif.Bytes("k"+string(rune('0'+i)), 32), nil))
	}
	cfg := &Config{name: "acc", id: "AA:BB:CC:DD:EE:FF", version: 1, state: 1, protocol: "1.0", discoverable: verif.Bool("stale-flag")}
	t := &ipTransport{database: database, config: cfg}
	verif.Assert(t.isPaired() == (n > 0), "paired-iff-a-controller-is-stored")
	t.updateMDNSReachability()
	verif.Assert(cfg.discoverable == (n == 0), "discoverable-iff-no-controller")
	sf := cfg.txtRecords()["sf"]
	verif.Assert((sf == "1") == (n == 0) && (sf == "0") == (n > 0), "sf-record")
	// pairing / unpairing events
	database.SaveEntity(db.NewEntity("ctrl-new", make([]byte, 32), nil))
	t.Handle(event.DevicePaired{})
	verif.Assert(!cfg.discoverable && cfg.txtRecords()["sf"] == "0", "paired-event-hides")
	database.DeleteEntity(db.NewEntity("ctrl-new", nil, nil))
	for i := 0; i < n; i++ {
		database.DeleteEntity(db.NewEntity("ctrl-"+string(rune('0'+i)), nil, nil))
	}
	t.Handle(event.DeviceUnpaired{})
	verif.Assert(cfg.discoverable && cfg.txtRecords()["sf"] == "1", "last-unpair-event-shows-again")
	verif.Reach("end")
}
