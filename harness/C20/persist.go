//hcverif:pkg .
package hc

import (
	"github.com/brutella/hc/util"

	"hcverif/verif"
)

// (c) One start from an ARBITRARY storage state: the configuration number goes up by
// exactly one iff a stored hash exists and differs from the new one; id, number and hash
// persist and are read back by the next start.
func Harness_C20_q_config_version() {
	dir := verif.TempDir("c20cfg")
	st, _ := util.NewFileStorage(dir)
	hasVersion := verif.Choice("has-version", 2) == 1
	stored := int64(1)
	if hasVersion {
		nd := 1 + verif.Choice("version-digits", 2)
		d := verif.Bytes("version", nd)
		stored = 0
		for i := range d {
			verif.Assume(d[i] >= '0' && d[i] <= '9')
			stored = stored*10 + int64(d[i]-'0')
		}
		st.Set("version", d)
	}
	hasHash := verif.Choice("has-hash", 2) == 1
	oldHash := verif.Bytes("old-hash", 16)
	if hasHash {
		st.Set("configHash", oldHash)
	}
	hasID := verif.Choice("has-id", 2) == 1
	if hasID {
		st.Set("uuid", []byte("AA:BB:CC:DD:EE:FF"))
	}
	cfg := &Config{id: "11:22:33:44:55:66", version: 1}
	cfg.load(st)
	verif.Assert(cfg.version == stored, "stored-number-is-loaded")
	newHash := verif.Bytes("new-hash", 16)
	cfg.updateConfigHash(newHash)
	cfg.save(st)
	want := stored
	if hasHash && !verif.Eq(oldHash, newHash) {
		want++
	}
	verif.Assert(cfg.version == want, "number-increases-exactly-when-the-structure-hash-changed")
	wantID := "11:22:33:44:55:66"
	if hasID {
		wantID = "AA:BB:CC:DD:EE:FF"
	}
	verif.Assert(cfg.id == wantID, "stored-id-wins")
	// next start on the same storage
	st2, _ := util.NewFileStorage(dir)
	next := &Config{id: "77:88:99:AA:BB:CC", version: 1}
	next.load(st2)
	verif.Assert(next.version == want && next.id == wantID && verif.Eq(next.configHash, newHash), "id-number-hash-persist")
	next.updateConfigHash(newHash)
	verif.Assert(next.version == want, "unchanged-structure-keeps-the-number")
	verif.Reach("end")
}
