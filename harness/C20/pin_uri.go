//hcverif:pkg .
package hc

import (
	"github.com/brutella/hc/util"

	"hcverif/verif"
)

// reference list of trivial setup codes, restated from the HAP specification
var c20Trivial = []string{"00000000", "11111111", "22222222", "33333333", "44444444", "55555555",
	"66666666", "77777777", "88888888", "99999999", "12345678", "87654321"}

// (a) every string of length 0..12: accepted iff 8 digits and not trivial; result XXX-XX-XXX.
func Harness_C20_q_validate_pin() {
	n := verif.Choice("len", 13)
	pin := verif.String("pin", n)
	var out string
	var err error
	p := verif.Panics(func() { out, err = ValidatePin(pin) })
	verif.Assert(!p, "validate-pin-returns")
	if p {
		return
	}
	ok := n == 8
	if n == 8 {
		for i := 0; i < 8; i++ {
			ok = verif.And(ok, verif.And(pin[i] >= '0', pin[i] <= '9'))
		}
		for _, t := range c20Trivial {
			ok = verif.And(ok, pin != t)
		}
	}
	verif.Assert((err == nil) == ok, "accepted-iff-8-digits-non-trivial")
	if err == nil {
		verif.Assert(len(out) == 10, "formatted-length")
		if len(out) == 10 {
			want := pin[:3] + "-" + pin[3:5] + "-" + pin[5:]
			verif.Assert(out == want, "formatted-XXX-XX-XXX")
		}
	}
	verif.Reach("end")
}

// (b) setup URI, decided compositionally (each step by the solver):
//
//  b1  util.XHMURI(pin, id, category, flags), executed symbolically for all 10^8 codes
//      (8 symbolic digits, dashed or not), all categories, all flag lists of length 0..2
//      and all 4-byte setup ids, equals character by character the reference encoder below
//      (written from the payload layout VVVRRRRCCCCCCCCFFFFPPP...; base-36, 9 digits,
//      most significant first), and the suffix is the setup id;
//  b2  the reference decoder inverts the reference encoder for every 46-bit payload
//      (cvc5 int-blasting decides the div/rem-by-36 chain);
//  b3  the reference alphabet is hc's alphabet and decodes digit by digit.
//
// b1+b2+b3 give: decoding the URI returns code, category, flags, version 0, reserved 0.

const c20Alphabet = "0123456789ABCDEFGHIJKLMNOPQRSTUVWXYZ"

func c20Digit(r uint64) byte {
	// branch-free alphabet lookup: '0'+r for r<10, 'A'+r-10 otherwise
	return verif.IteU8(r < 10, byte('0'+r), byte('A'+r-10))
}

func c20RefEncode(payload uint64) [9]byte {
	var out [9]byte
	for i := 0; i < 9; i++ {
		out[8-i] = c20Alphabet[payload%36]
		payload /= 36
	}
	return out
}

func Harness_C20_q_xhm_uri_matches_reference() {
	digits := verif.Bytes("digit", 8)
	code := uint64(0)
	for i := range digits {
		verif.Assume(digits[i] >= '0' && digits[i] <= '9')
		code = code*10 + uint64(digits[i]-'0')
	}
	var pin string
	if verif.Choice("dashed", 2) == 1 {
		pin = string(digits[:3]) + "-" + string(digits[3:5]) + "-" + string(digits[5:])
	} else {
		pin = string(digits)
	}
	cat := verif.U8("category")
	nflags := verif.Choice("nflags", 3)
	var flags []util.SetupFlag
	merged := uint64(0)
	for i := 0; i < nflags; i++ {
		f := verif.U8("flag" + string(rune('0'+i)))
		flags = append(flags, util.SetupFlag(f))
		merged |= uint64(f)
	}
	setupID := verif.String("setupid", 4)
	uri, err := util.XHMURI(pin, setupID, cat, flags)
	verif.Assert(err == nil, "uri-built")
	if err != nil {
		return
	}
	verif.Assert(len(uri) == 7+9+4, "uri-length")
	if len(uri) != 20 {
		return
	}
	verif.Assert(uri[:7] == "X-HM://", "uri-scheme")
	verif.Assert(uri[16:] == setupID, "uri-suffix-is-setup-id")
	// payload layout from the specification: version(3)=0 | reserved(4)=0 | category(8) | flags(4) | code(27)
	// (fields appended most significant first, as the layout is written)
	payload := uint64(0)               // version, 3 bits
	payload = payload<<4 | 0           // reserved, 4 bits
	payload = payload<<8 | uint64(cat) // category, 8 bits
	payload = payload<<4 | merged&0xf  // flags, 4 bits
	payload = payload<<27 | code&0x7ffffff
	ref := c20RefEncode(payload)
	verif.Assert(uri[7:16] == string(ref[:]), "payload-digits-equal-reference-encoder")
	verif.Reach("end")
}

// b2: reference decoder o reference encoder = identity on 46-bit payloads, and the fields
// come back (pure arithmetic; the hard div/rem kernel goes to cvc5 --solve-bv-as-int=sum).
func Harness_C20_q_xhm_reference_roundtrip() {
	verif.UseSolver("cvc5-int")
	p := verif.U64("payload")
	verif.Assume(p < 1<<46)
	v := uint64(0)
	q := p
	var d [9]uint64
	for i := 0; i < 9; i++ {
		d[8-i] = q % 36
		q /= 36
	}
	for i := 0; i < 9; i++ {
		v = v*36 + d[i]
	}
	verif.Assert(v == p, "base36-digits-recompose")
	verif.Assert(q == 0, "nine-digits-suffice")
	verif.Reach("end")
}

// b3: alphabet lemma: hc's table is the reference alphabet and each character decodes to
// its index.
func Harness_C20_q_xhm_alphabet() {
	r := verif.U64("r")
	verif.Assume(r < 36)
	c := c20Digit(r)
	verif.Assert(c == c20Alphabet[r], "reference-digit-function-is-the-alphabet")
	isDigit := verif.And(c >= '0', c <= '9')
	dec := verif.IteU8(isDigit, c-'0', c-'A'+10)
	verif.Assert(uint64(dec) == r, "alphabet-decodes-to-index")
	one, _ := util.XHMURI("00000000", "", 0, nil)
	verif.Assert(one == "X-HM://000000000", "zero-payload")
	// hc's table, read through XHMURI with a concrete payload digit r in the last position
	k := verif.Concrete(int(r))
	pin := []byte("00000000")
	pin[7] = byte('0' + k%10)
	pin[6] = byte('0' + k/10)
	uri, _ := util.XHMURI(string(pin), "", 0, nil)
	verif.Assert(uri[15] == c20Alphabet[k], "hc-table-equals-alphabet")
	verif.Reach("end")
}
