//hcverif:pkg .
package hc

import (
	"github.com/brutella/hc/db"
	"github.com/brutella/hc/hap"
	"github.com/brutella/hc/util"

	"hcverif/verif"
)

// (d) The device identity: an existing entity is returned unchanged and nothing is
// regenerated; otherwise a fresh key pair is stored and every later start returns it.
func Harness_C20_q_device_identity() {
	dir := verif.TempDir("c20dev")
	st, _ := util.NewFileStorage(dir)
	database := db.NewDatabaseWithStorage(st)
	name := "AA:BB:CC:DD:EE:FF"
	existing := verif.Choice("existing", 2) == 1
	pub, priv := verif.Bytes("pub", 32), verif.Bytes("priv", 64)
	if existing {
		database.SaveEntity(db.NewEntity(name, pub, priv))
	}
	d1, err := hap.NewSecuredDevice(name, "001-02-003", database)
	verif.Assert(err == nil && d1 != nil, "device-created")
	if existing {
		verif.Assert(verif.Eq(d1.PublicKey(), pub) && verif.Eq(d1.PrivateKey(), priv), "existing-identity-kept")
	} else {
		verif.Assert(len(d1.PublicKey()) == 32 && len(d1.PrivateKey()) == 64, "fresh-key-pair")
	}
	// restart
	st2, _ := util.NewFileStorage(dir)
	d2, err := hap.NewSecuredDevice(name, "001-02-003", db.NewDatabaseWithStorage(st2))
	verif.Assert(err == nil && verif.Eq(d2.PublicKey(), d1.PublicKey()) && verif.Eq(d2.PrivateKey(), d1.PrivateKey()), "identity-survives-restart")
	es, _ := database.Entities()
	verif.Assert(len(es) == 1, "one-device-entity")
	verif.Reach("end")
}
