//hcverif:pkg .
package hc

import (
	"github.com/brutella/hc/db"
	"github.com/brutella/hc/event"
	"github.com/brutella/hc/util"

	"hcverif/verif"
)

// (e) Discoverability: sf = 1 exactly when no controller pairing is stored (the
// accessory's own entity does not count). The flag is recomputed whenever a pairing event
// reaches the transport (Handle is the listener the emitter calls): whatever the event
// says, after it the flag reflects the stored pairings.
func Harness_C20_q_discoverable_flag() {
	dir := verif.TempDir("c20sf")
	st, _ := util.NewFileStorage(dir)
	database := db.NewDatabaseWithStorage(st)
	database.SaveEntity(db.NewEntity("AA:BB:CC:DD:EE:FF", make([]byte, 32), make([]byte, 64)))
	n := verif.Choice("controllers", 3)
	for i := 0; i < n; i++ {
		database.SaveEntity(db.NewEntity("ctrl-"+string(rune('0'+i)), verif.Bytes("k"+string(rune('0'+i)), 32), nil))
	}
	cfg := &Config{name: "acc", id: "AA:BB:CC:DD:EE:FF", version: 1, state: 1, protocol: "1.0", discoverable: verif.Bool("stale-flag")}
	t := &ipTransport{database: database, config: cfg}
	events := []interface{}{event.DevicePaired{}, event.DeviceUnpaired{}}
	check := func(stored int, label string) {
		sf := cfg.txtRecords()["sf"]
		verif.Assert((sf == "1") == (stored == 0) && (sf == "0") == (stored > 0), label)
	}
	// an event arrives while n pairings are stored (e.g. the removal of a pairing that did
	// not exist, or of one of several)
	if n > 0 {
		t.Handle(event.DeviceUnpaired{})
		check(n, "unpair-event-with-remaining-pairings-stays-hidden")
	}
	t.Handle(events[verif.Choice("event", 2)])
	check(n, "flag-follows-the-stored-pairings-not-the-event")
	// a controller pairs
	database.SaveEntity(db.NewEntity("ctrl-new", make([]byte, 32), nil))
	t.Handle(event.DevicePaired{})
	check(n+1, "paired-event-hides")
	// it is removed again; the others remain
	database.DeleteEntity(db.NewEntity("ctrl-new", nil, nil))
	t.Handle(event.DeviceUnpaired{})
	check(n, "unpair-event-shows-again-only-without-remaining-pairings")
	for i := 0; i < n; i++ {
		database.DeleteEntity(db.NewEntity("ctrl-"+string(rune('0'+i)), nil, nil))
	}
	t.Handle(event.DeviceUnpaired{})
	check(0, "last-unpair-event-shows-again")
	verif.Reach("end")
}
