//hcverif:pkg accessory
package accessory

import (
	"github.com/brutella/hc/characteristic"
	"github.com/brutella/hc/service"

	"hcverif/verif"
)

func hhKey(tag string) string { return verif.String(tag, 5) } // may or may not be "value"

// (f1) Removing "value" members from an arbitrary JSON-like tree: afterwards no key equals
// "value" at any depth and every other member is still there.
func Harness_C20_q_delete_value_fields() {
	k1, k2, k3, k4, k5 := hhKey("k1"), hhKey("k2"), hhKey("k3"), hhKey("k4"), hhKey("k5")
	verif.Assume(k1 != k2 && k1 != k4 && k2 != k4)
	inner := map[string]interface{}{k3: 1.0, "value": 2.0}
	deep := map[string]interface{}{k5: "x", "value": []interface{}{1.0}}
	tree := map[string]interface{}{k1: 7.0, k2: inner, k4: []interface{}{deep, 3.0}}
	deleteFieldFromDict(&tree, "value")
	for k := range tree {
		verif.Assert(k != "value", "no-value-key-at-top")
	}
	if k2 != "value" { // otherwise the whole sub-tree was removed with its parent member
		for k := range inner {
			verif.Assert(k != "value", "no-value-key-nested")
		}
	}
	if k4 != "value" {
		for k := range deep {
			verif.Assert(k != "value", "no-value-key-in-array-element")
		}
	}
	if k1 != "value" {
		_, ok := tree[k1]
		verif.Assert(ok, "other-members-kept")
	}
	if k2 != "value" && k3 != "value" {
		_, ok := inner[k3]
		verif.Assert(ok, "nested-members-kept")
	}
	if k4 != "value" && k5 != "value" {
		_, ok := deep[k5]
		verif.Assert(ok, "array-element-members-kept")
	}
	verif.Reach("end")
}

func hhContainer(extra bool, bright int, on bool, name string) *Container {
	a := New(Info{Name: name}, TypeLightbulb)
	s := service.New("43")
	b := characteristic.NewBrightness()
	b.SetValue(bright)
	o := characteristic.NewOn()
	o.SetValue(on)
	s.AddCharacteristic(b.Characteristic)
	s.AddCharacteristic(o.Characteristic)
	if extra {
		s.AddCharacteristic(characteristic.NewHue().Characteristic)
	}
	a.AddService(s)
	c := NewContainer()
	c.AddAccessory(a)
	return c
}

// (f2) The content hash depends on the structure of the attribute database only: other
// characteristic values give the same hash, an added characteristic gives a different one.
func Harness_C20_q_content_hash() {
	b1, b2 := int(verif.U8("b1")), int(verif.U8("b2"))
	verif.Assume(b1 <= 100 && b2 <= 100 && b1 != b2)
	o1, o2 := verif.Bool("o1"), verif.Bool("o2")
	h1 := hhContainer(false, b1, o1, "lamp").ContentHash()
	h2 := hhContainer(false, b2, o2, "lamp").ContentHash()
	h3 := hhContainer(true, b1, o1, "lamp").ContentHash()
	verif.Assert(len(h1) == 16, "hash-length")
	verif.Assert(verif.Eq(h1, h2), "values-do-not-change-the-hash")
	verif.Assert(!verif.Eq(h1, h3), "structure-changes-the-hash")
	verif.Reach("end")
}
