//hcverif:pkg util
package util

import (
	"hcverif/models"
	"hcverif/verif"
)

// A crash at any point of Set: before any of its file operations, or inside a write after
// any prefix. Afterwards a fresh store on the same directory returns the old value or the
// new value in full (not-found only if the key did not exist before), and the other key is
// untouched. The crash point is chosen among the operations Set actually performs, so the
// harness adapts to a Set that writes a temporary file and renames it.
func Harness_C19_q_crash_during_set() {
	if !verif.IsSymbolic() {
		verif.EngineOnly() // crash injection lives in the file-system model
	}
	dir := verif.TempDir("c19")
	k := ssKey("k")
	other := ssKey("o")
	verif.Assume(other != k)
	oldOther := ssVal("other-old", 2)
	ssPre(dir, other, oldOther)
	hadOld := verif.Choice("k-exists", 2) == 1
	var old []byte
	if hadOld {
		old = ssVal("old", 3)
		ssPre(dir, k, old)
	}
	nv := ssVal("new", 3)
	if verif.Choice("stale-tmp", 2) == 1 {
		// leftover of an earlier interrupted write (whatever temporary name Set uses, a
		// file called <key>.tmp may exist)
		ssPre(dir, k+".tmp", ssVal("stale", 3))
	}
	st, _ := NewFileStorage(dir)
	point := verif.Choice("crash-before-op", 6)
	partial := verif.Choice("partial-bytes", 4)
	models.FSSetCrash(point, partial)
	var setErr error
	crashed := models.FSRun(func() { setErr = st.Set(k, nv) })
	models.FSDisarm()
	if !crashed {
		// the crash point lies beyond the operations of this Set: plain success path
		verif.Assert(setErr == nil, "set-ok")
	}
	verif.Fact("crashed", map[bool]string{true: "yes", false: "no"}[crashed])
	st2, _ := NewFileStorage(dir)
	g, err := st2.Get(k)
	isOld := hadOld && err == nil && verif.Eq(g, old)
	isNew := err == nil && verif.Eq(g, nv)
	isMissing := !hadOld && err != nil
	if crashed {
		verif.Assert(isOld || isNew || isMissing, "after-crash-old-or-new-value-in-full")
	} else {
		verif.Assert(isNew, "without-crash-new-value")
	}
	g2, err2 := st2.Get(other)
	verif.Assert(err2 == nil && verif.Eq(g2, oldOther), "other-keys-untouched-by-crash")
	keys, _ := st2.KeysWithSuffix(".e")
	for _, x := range keys {
		verif.Assert(x == k || x == other, "no-stray-entries-listed-after-crash")
	}
	verif.Reach("end")
}
