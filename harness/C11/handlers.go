//hcverif:pkg hap/http
package http

import "hcverif/verif"

func Harness_C11_q_put_ev_permission() {
	k := 1
	if verif.Thorough() {
		k = 2
	}
	zzPutScenario("C11", k)
}
