//hcverif:pkg characteristic
package characteristic

import (
	"net"
	"time"

	"hcverif/verif"
)

type yyConn struct{ id int }

func (yyConn) Read(b []byte) (int, error)         { return 0, nil }
func (yyConn) Write(b []byte) (int, error)        { return len(b), nil }
func (yyConn) Close() error                       { return nil }
func (yyConn) LocalAddr() net.Addr                { return nil }
func (yyConn) RemoteAddr() net.Addr               { return nil }
func (yyConn) SetDeadline(t time.Time) error      { return nil }
func (yyConn) SetReadDeadline(t time.Time) error  { return nil }
func (yyConn) SetWriteDeadline(t time.Time) error { return nil }

// yyPerms returns an arbitrary permission list: 0..3 strings of symbolic bytes.
func yyPerms() (perms []string, has func(string) bool) {
	k := verif.Choice("nperms", 4)
	lens := []int{2}
	if verif.Thorough() {
		lens = []int{1, 2, 3}
	}
	for i := 0; i < k; i++ {
		id := string(rune('0' + i))
		n := lens[verif.Choice("permlen"+id, len(lens))]
		perms = append(perms, verif.String("perm"+id, n))
	}
	has = func(p string) bool {
		r := false
		for _, q := range perms {
			r = verif.Or(r, q == p)
		}
		return r
	}
	return
}

// For an arbitrary permission list and arbitrary old/new integer values:
//   - without "pw" a remote update changes nothing and calls no callback;
//   - without "pr" the value is never stored (stays nil) and the getter reveals nothing;
//   - with the permission the update takes effect (so the guards are not vacuous).
func Harness_C11_q_read_write_perms() {
	perms, has := yyPerms()
	c := NewInt("yy")
	c.Format = FormatInt32
	c.Perms = perms
	c.updateOnSameValue = verif.Choice("update-on-same-value", 2) == 1 // as NewProgrammableSwitchEvent sets it
	readable := has(PermRead)
	writable := has(PermWrite)
	// pre-state: a readable characteristic holds an int, a write-only one holds nil
	var old interface{}
	if readable {
		old = int(verif.I64("old"))
		c.Value = old
	}
	nv := int(verif.I64("new"))
	localCalls, connCalls := 0, 0
	var cbNew interface{}
	c.OnValueUpdate(func(ch *Characteristic, n, o interface{}) { localCalls++; cbNew = n })
	c.OnValueUpdateFromConn(func(conn net.Conn, ch *Characteristic, n, o interface{}) { connCalls++; cbNew = n })
	remote := verif.Choice("remote", 2) == 1
	if remote {
		c.UpdateValueFromConnection(nv, yyConn{1})
	} else {
		c.UpdateValue(nv)
	}
	changed := !readable || old.(int) != nv || c.updateOnSameValue
	if remote && !writable {
		if readable {
			verif.Assert(c.Value.(int) == old.(int), "no-pw-remote-write-leaves-value")
		} else {
			verif.Assert(c.Value == nil, "no-pw-no-pr-value-stays-nil")
		}
		verif.Assert(localCalls == 0 && connCalls == 0, "no-pw-remote-write-calls-nothing")
	} else {
		if !readable {
			verif.Assert(c.Value == nil, "no-pr-value-never-stored")
			verif.Assert(c.GetValueFromConnection(yyConn{2}) == nil, "no-pr-reveals-nothing")
		} else {
			verif.Assert(c.Value.(int) == nv, "permitted-update-takes-effect")
		}
		if changed {
			if remote {
				verif.Assert(connCalls == 1 && localCalls == 0, "remote-change-calls-conn-callback-once")
			} else {
				verif.Assert(localCalls == 1 && connCalls == 0, "local-change-calls-local-callback-once")
			}
			verif.Assert(cbNew.(int) == nv, "callback-receives-new-value")
		} else {
			verif.Assert(localCalls == 0 && connCalls == 0, "unchanged-value-calls-nothing")
		}
	}
	verif.Assert(c.IsReadable() == readable && c.IsWritable() == writable && c.IsObservable() == has(PermEvents), "perm-predicates")
	// A value-get callback (the application computes the value when it is read): a reader
	// obtains the callback's value exactly when the characteristic is readable; without "pr"
	// it is neither stored nor handed out.
	if verif.Choice("get-callback", 2) == 1 {
		secret := int(verif.I64("callback-value"))
		c.OnValueGet(func() interface{} { return secret })
		var got interface{}
		if verif.Choice("reader", 2) == 1 {
			got = c.GetValueFromConnection(yyConn{3})
		} else {
			got = c.Characteristic.GetValue()
		}
		if !readable {
			verif.Assert(got == nil, "no-pr-get-callback-value-not-revealed")
			verif.Assert(c.Value == nil, "no-pr-get-callback-value-not-stored")
		} else {
			g, ok := got.(int)
			verif.Assert(ok && g == secret, "pr-get-callback-value-is-what-the-reader-gets")
		}
	}
	verif.Reach("end")
}
