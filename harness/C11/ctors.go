//hcverif:pkg characteristic
package characteristic

import (
	"net"

	"hcverif/verif"
)

// For EVERY characteristic constructor of the library (its concrete permission list): a
// remote write without "pw" changes nothing and calls nothing; without "pr" nothing is ever
// stored or revealed.
func Harness_C11_q_every_constructor_perms() {
	c, _ := vvPick()
	if c == nil {
		verif.Reach("end")
		return
	}
	readable, writable := vvHas(c, PermRead), vvHas(c, PermWrite)
	calls := 0
	c.OnValueUpdateFromConn(func(conn net.Conn, ch *Characteristic, n, o interface{}) { calls++ })
	c.OnValueUpdate(func(ch *Characteristic, n, o interface{}) { calls++ })
	old := c.Value
	var v interface{}
	switch {
	case vvIsInt(c.Format):
		v = float64(verif.U8("num"))
	case c.Format == FormatFloat:
		v = float64(verif.U8("num")) / 2
	case c.Format == FormatBool:
		v = verif.Bool("bool")
	default:
		v = verif.String("str", 2)
	}
	c.UpdateValueFromConnection(v, yyConn{1})
	if !writable {
		verif.Assert(calls == 0, "no-pw-remote-write-calls-nothing")
		if readable {
			same := false
			switch o := old.(type) {
			case int:
				n, ok := c.Value.(int)
				same = ok && n == o
			case float64:
				n, ok := c.Value.(float64)
				same = ok && n == o
			case bool:
				n, ok := c.Value.(bool)
				same = ok && n == o
			case string:
				n, ok := c.Value.(string)
				same = ok && n == o
			case nil:
				same = c.Value == nil
			}
			verif.Assert(same, "no-pw-remote-write-leaves-value")
		}
	}
	if !readable {
		verif.Assert(c.Value == nil, "no-pr-value-never-stored")
		verif.Assert(c.GetValueFromConnection(yyConn{2}) == nil, "no-pr-reveals-nothing")
	}
	verif.Assert(c.IsReadable() == readable && c.IsWritable() == writable && c.IsObservable() == vvHas(c, PermEvents), "perm-predicates")
	verif.Reach("end")
}
