//hcverif:pkg crypto
package crypto

import (
	"bytes"
	"crypto/sha512"
	"encoding/binary"
	"io"
	"io/ioutil"

	xchacha "golang.org/x/crypto/chacha20poly1305"
	xhkdf "golang.org/x/crypto/hkdf"

	"hcverif/verif"
)

// ---- reference implementation written from the HAP specification ----

func c06RefKey(secret []byte, info string) []byte {
	r := xhkdf.New(sha512.New, secret, []byte("Control-Salt"), []byte(info))
	k := make([]byte, 32)
	io.ReadFull(r, k)
	return k
}

// c06RefFrames frames payload starting at frame counter ctr: per <=1024-byte chunk,
// 2-byte LE length || ciphertext || 16-byte tag; AD = the length bytes; nonce = 4 zero
// bytes || 64-bit LE counter.
func c06RefFrames(key []byte, ctr uint64, payload []byte) (wire []byte, next uint64) {
	aead, _ := xchacha.New(key)
	wire = []byte{}
	for len(payload) > 0 {
		n := len(payload)
		if n > 1024 {
			n = 1024
		}
		var nonce [12]byte
		binary.LittleEndian.PutUint64(nonce[4:], ctr)
		ctr++
		ad := []byte{byte(n), byte(n >> 8)}
		wire = append(wire, ad...)
		wire = append(wire, aead.Seal(nil, nonce[:], payload[:n], ad)...)
		payload = payload[n:]
	}
	return wire, ctr
}

func c06Secret() (s [32]byte, raw []byte) {
	raw = verif.Bytes("secret", 32)
	copy(s[:], raw)
	return
}

func c06Lens() []int {
	l := []int{0, 1, 2, 1023, 1024, 1025}
	if verif.Thorough() {
		l = append(l, 2047, 2048, 2049, 3072, 4097)
	}
	return l
}

// (a)+(b): accessory -> controller and controller -> accessory, up to three messages per
// session (counter continuity), wire bytes equal the reference framing, the peer's Decrypt
// returns exactly the payload.
func Harness_C06_q_wire_and_roundtrip() {
	secret, raw := c06Secret()
	acc, err1 := NewSecureSessionFromSharedKey(secret)
	ctl, err2 := NewSecureClientSessionFromSharedKey(secret)
	verif.Assert(err1 == nil && err2 == nil, "sessions-created")
	dir := verif.Choice("direction", 2)
	sender, receiver := acc, ctl
	info := "Control-Read-Encryption-Key" // accessory -> controller
	if dir == 1 {
		sender, receiver = ctl, acc
		info = "Control-Write-Encryption-Key"
	}
	key := c06RefKey(raw, info)
	lens := c06Lens()
	msgs := 1 + verif.Choice("messages", 2)
	ctr := uint64(0)
	if verif.Choice("start-counter", 2) == 1 {
		// any position in a long-lived session: the nonce carries all 64 bits of the counter
		ctr = verif.U64("c0")
		verif.Assume(ctr < 0xffffffffffffff00)
		sender.(*secureSession).encryptCount = ctr
		receiver.(*secureSession).decryptCount = ctr
	}
	for i := 0; i < msgs; i++ {
		n := lens[verif.Choice("len"+string(rune('0'+i)), len(lens))]
		payload := verif.Bytes("p"+string(rune('0'+i)), n)
		enc, err := sender.Encrypt(bytes.NewBuffer(append([]byte{}, payload...)))
		verif.Assert(err == nil, "encrypt-ok")
		wire, _ := ioutil.ReadAll(enc)
		var ref []byte
		ref, ctr = c06RefFrames(key, ctr, payload)
		verif.Assert(verif.Eq(wire, ref), "wire-equals-reference-framing")
		dec, err := receiver.Decrypt(bytes.NewBuffer(wire))
		verif.Assert(err == nil, "decrypt-ok")
		if err != nil {
			return
		}
		got, _ := ioutil.ReadAll(dec)
		verif.Assert(verif.Eq(got, payload), "roundtrip-identical")
	}
	verif.Reach("end")
}

// chunkReader delivers its data in reads of the given sizes (then as much as asked), and
// can deliver the last bytes together with io.EOF.
type chunkReader struct {
	data    []byte
	sizes   []int
	withEOF bool
}

func (c *chunkReader) Read(p []byte) (int, error) {
	if len(c.data) == 0 {
		return 0, io.EOF
	}
	n := len(p)
	if len(c.sizes) > 0 {
		if c.sizes[0] < n {
			n = c.sizes[0]
		}
		c.sizes = c.sizes[1:]
	}
	if n > len(c.data) {
		n = len(c.data)
	}
	copy(p, c.data[:n])
	c.data = c.data[n:]
	if len(c.data) == 0 && c.withEOF {
		return n, io.EOF
	}
	return n, nil
}

// (c): however the source io.Reader chunks the payload, the framing is the same.
func Harness_C06_q_reader_chunking() {
	secret, raw := c06Secret()
	acc, _ := NewSecureSessionFromSharedKey(secret)
	ctl, _ := NewSecureClientSessionFromSharedKey(secret)
	key := c06RefKey(raw, "Control-Read-Encryption-Key")
	var n int
	var sizes []int
	switch verif.Choice("shape", 6) {
	case 0: // short payload, every composition of two cuts
		n = 1 + verif.Choice("n", 4)
		a := 1 + verif.Choice("cut1", n)
		sizes = []int{a, 1 + verif.Choice("cut2", n)}
	case 1: // one byte at a time
		n = 5
		sizes = []int{1, 1, 1, 1, 1}
	case 2: // halves around the frame size
		n = 1024 + verif.Choice("extra", 3) - 1
		sizes = []int{n / 2}
	case 3: // n-1 | 1
		n = 1024 + verif.Choice("extra", 3) - 1
		sizes = []int{n - 1, 1}
	case 4: // 1 | rest
		n = 1025
		sizes = []int{1}
	case 5: // full read
		n = 3
	}
	withEOF := verif.Choice("data-with-eof", 2) == 1
	payload := verif.Bytes("p", n)
	enc, err := acc.Encrypt(&chunkReader{data: append([]byte{}, payload...), sizes: sizes, withEOF: withEOF})
	verif.Assert(err == nil, "encrypt-ok")
	wire, _ := ioutil.ReadAll(enc)
	ref, _ := c06RefFrames(key, 0, payload)
	verif.Assert(verif.Eq(wire, ref), "chunked-source-same-wire")
	dec, err := ctl.Decrypt(bytes.NewBuffer(wire))
	verif.Assert(err == nil, "decrypt-ok")
	if err != nil {
		return
	}
	got, _ := ioutil.ReadAll(dec)
	verif.Assert(verif.Eq(got, payload), "chunked-source-roundtrip")
	verif.Reach("end")
}

// Every payload length 0..4097 (the property's exhaustive range), one message, both
// directions: wire = reference framing, round trip identical.
func Harness_C06_q_every_length() {
	secret, raw := c06Secret()
	acc, _ := NewSecureSessionFromSharedKey(secret)
	ctl, _ := NewSecureClientSessionFromSharedKey(secret)
	sender, receiver := acc, ctl
	info := "Control-Read-Encryption-Key"
	if verif.Choice("direction", 2) == 1 {
		sender, receiver = ctl, acc
		info = "Control-Write-Encryption-Key"
	}
	key := c06RefKey(raw, info)
	n := verif.Choice("len", 4098)
	payload := verif.Bytes("p", n)
	enc, err := sender.Encrypt(bytes.NewBuffer(append([]byte{}, payload...)))
	verif.Assert(err == nil, "encrypt-ok")
	wire, _ := ioutil.ReadAll(enc)
	ref, _ := c06RefFrames(key, 0, payload)
	verif.Assert(verif.Eq(wire, ref), "wire-equals-reference-framing")
	dec, err := receiver.Decrypt(bytes.NewBuffer(wire))
	verif.Assert(err == nil, "decrypt-ok")
	if err != nil {
		return
	}
	got, _ := ioutil.ReadAll(dec)
	verif.Assert(verif.Eq(got, payload), "roundtrip-identical")
	verif.Reach("end")
}

// Several messages on ONE stream (a reader that holds more than the current message, as a
// buffered network reader does): each Decrypt call returns one message and consumes exactly
// that message's frames, so the following messages are intact. (Messages whose length is a
// multiple of 1024 have no end marker and are not used here.)
func Harness_C06_q_messages_on_one_stream() {
	secret, _ := c06Secret()
	acc, _ := NewSecureSessionFromSharedKey(secret)
	ctl, _ := NewSecureClientSessionFromSharedKey(secret)
	lens := []int{1, 3, 1025}
	k := 2 + verif.Choice("messages", 2)
	var stream []byte
	var ps [][]byte
	var sizes []int
	for i := 0; i < k; i++ {
		id := string(rune('0' + i))
		p := verif.Bytes("p"+id, lens[verif.Choice("len"+id, len(lens))])
		enc, err := ctl.Encrypt(bytes.NewBuffer(append([]byte{}, p...)))
		verif.Assert(err == nil, "encrypt-ok")
		w, _ := ioutil.ReadAll(enc)
		stream = append(stream, w...)
		ps = append(ps, p)
		sizes = append(sizes, len(w))
	}
	buf := bytes.NewBuffer(stream)
	left := len(stream)
	for i := 0; i < k; i++ {
		dec, err := acc.Decrypt(buf)
		verif.Assert(err == nil, "decrypt-ok")
		if err != nil {
			return
		}
		got, _ := ioutil.ReadAll(dec)
		verif.Assert(verif.Eq(got, ps[i]), "message-identical")
		left -= sizes[i]
		verif.Assert(buf.Len() == left, "consumes-exactly-one-message")
	}
	verif.Reach("end")
}

// Payloads around 64 KiB in ONE Encrypt call (where a 16-bit length computation could wrap):
// wire = reference framing, round trip identical.
// (not registered as a harness: about 70 s per path, did not finish within 15 minutes)
func c06PayloadsAround64k() {
	secret, raw := c06Secret()
	acc, _ := NewSecureSessionFromSharedKey(secret)
	ctl, _ := NewSecureClientSessionFromSharedKey(secret)
	key := c06RefKey(raw, "Control-Read-Encryption-Key")
	n := []int{65535, 65536, 65537, 66560 + 5}[verif.Choice("len", 4)]
	// (contents: zeros with a symbolic first and last byte - 64 KiB of symbolic bytes makes the
	// collision-freedom constraints between the 65 frames too expensive)
	payload := make([]byte, n)
	payload[0], payload[n-1] = verif.U8("first"), verif.U8("last")
	enc, err := acc.Encrypt(bytes.NewBuffer(append([]byte{}, payload...)))
	verif.Assert(err == nil, "encrypt-ok")
	wire, _ := ioutil.ReadAll(enc)
	ref, _ := c06RefFrames(key, 0, payload)
	verif.Assert(verif.Eq(wire, ref), "wire-equals-reference-framing")
	dec, err := ctl.Decrypt(bytes.NewBuffer(wire))
	verif.Assert(err == nil, "decrypt-ok")
	if err != nil {
		return
	}
	got, _ := ioutil.ReadAll(dec)
	verif.Assert(verif.Eq(got, payload), "roundtrip-identical")
	verif.Reach("end")
}

var _ = c06PayloadsAround64k
