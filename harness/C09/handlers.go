//hcverif:pkg hap/http
package http

import "hcverif/verif"

func Harness_C09_q_get_ids() {
	k := 2
	if verif.Thorough() {
		k = 3
	}
	zzGetScenario(k)
}

func Harness_C09_q_put_values() {
	k := 1
	if verif.Thorough() {
		k = 2
	}
	zzPutScenario("C09", k)
}
