//hcverif:pkg characteristic
package characteristic

import (
	"net"
	"time"

	"hcverif/verif"
)

type ccConn struct{}

func (ccConn) Read(b []byte) (int, error)         { return 0, nil }
func (ccConn) Write(b []byte) (int, error)        { return len(b), nil }
func (ccConn) Close() error                       { return nil }
func (ccConn) LocalAddr() net.Addr                { return nil }
func (ccConn) RemoteAddr() net.Addr               { return nil }
func (ccConn) SetDeadline(t time.Time) error      { return nil }
func (ccConn) SetReadDeadline(t time.Time) error  { return nil }
func (ccConn) SetWriteDeadline(t time.Time) error { return nil }

// For EVERY characteristic constructor of the library and every valid value of its format
// inside its bounds (symbolic): what the application sets is what the getter returns, and
// what a controller writes (as JSON delivers it) is what the getter then returns and what
// the remote-update callback receives.
func Harness_C09_q_every_constructor_value_fidelity() {
	c, _ := vvPick()
	if c == nil {
		verif.Reach("end")
		return
	}
	readable, writable := vvHas(c, PermRead), vvHas(c, PermWrite)
	var cb interface{}
	calls := 0
	c.OnValueUpdateFromConn(func(conn net.Conn, ch *Characteristic, n, o interface{}) { calls++; cb = n })
	remote := verif.Choice("remote", 2) == 1
	set := func(v interface{}) {
		if remote {
			c.UpdateValueFromConnection(v, ccConn{})
		} else {
			c.UpdateValue(v)
		}
	}
	effective := !remote || writable
	switch {
	case vvIsInt(c.Format):
		lo, hi := vvIntRange(c)
		v := verif.Int("int-value", lo, hi)
		old := c.Value
		if remote {
			set(float64(v)) // JSON numbers arrive as float64
		} else {
			set(v)
		}
		if readable && effective {
			got, ok := c.Value.(int)
			verif.Assert(ok && got == v, "int-value-fidelity")
		}
		if remote && writable && (old == nil || old.(int) != v) {
			verif.Assert(calls == 1 && cb.(int) == v, "int-callback-receives-written-value")
		}
	case c.Format == FormatFloat:
		v := verif.F64("float-value")
		verif.Assume(verif.And(v == v, v-v == 0))
		if lo, ok := c.MinValue.(float64); ok {
			verif.Assume(v >= lo)
		}
		if hi, ok := c.MaxValue.(float64); ok {
			verif.Assume(v <= hi)
		}
		old := c.Value
		set(v)
		if readable && effective {
			got, ok := c.Value.(float64)
			verif.Assert(ok && got == v, "float-value-fidelity")
		}
		if remote && writable && (old == nil || old.(float64) != v) {
			verif.Assert(calls == 1 && cb.(float64) == v, "float-callback-receives-written-value")
		}
	case c.Format == FormatBool:
		v := verif.Bool("bool-value")
		// HAP lets a controller spell a bool as true/false or as the number 1/0 (JSON numbers
		// arrive as float64); the application passes bool or int
		num := 0
		if v {
			num = 1
		}
		switch verif.Choice("bool-spelling", 3) {
		case 0:
			set(v)
		case 1:
			set(float64(num))
		default:
			set(num)
		}
		if readable && effective {
			got, ok := c.Value.(bool)
			verif.Assert(ok && got == v, "bool-value-fidelity")
		}
	default:
		v := verif.String("string-value", 3)
		set(v)
		if readable && effective {
			got, ok := c.Value.(string)
			verif.Assert(ok && got == v, "string-value-fidelity")
		}
	}
	if !readable {
		verif.Assert(c.Value == nil, "write-only-stores-nothing")
	}
	verif.Reach("end")
}
