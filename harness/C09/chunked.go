//hcverif:pkg hap
package hap

import (
	"errors"

	"hcverif/verif"
)

// ccWriter accepts whole chunks until a symbolic point, where it fails after accepting a
// symbolic prefix of the chunk (an io.Writer must return an error with a short write).
type ccWriter struct {
	chunks  [][]byte
	failAt  int // index of the Write call that fails (-1: never)
	partial int
	calls   int
}

var errCC = errors.New("cc: write failed")

func (w *ccWriter) Write(p []byte) (int, error) {
	defer func() { w.calls++ }()
	if w.calls == w.failAt {
		n := w.partial
		if n > len(p) {
			n = len(p)
		}
		w.chunks = append(w.chunks, append([]byte{}, p[:n]...))
		return n, errCC
	}
	w.chunks = append(w.chunks, append([]byte{}, p...))
	return len(p), nil
}

// chunkedWriter.Write: for the listed payload lengths and an arbitrary failure point of the
// underlying writer: the concatenation of what the underlying writer accepted is a prefix
// of p (all of p without failure), no chunk exceeds 2048 bytes, chunks are maximal, and the
// returned count is the number of bytes accepted before the failing call.
func Harness_C09_q_chunked_writer() {
	lens := []int{0, 1, 2047, 2048, 2049, 4096, 4097}
	if verif.Thorough() {
		lens = append(lens, 5000, 6144, 6145)
	}
	n := lens[verif.Choice("len", len(lens))]
	p := verif.Bytes("p", n)
	nchunks := (n + 2047) / 2048
	under := &ccWriter{failAt: -1}
	if verif.Choice("fails", 2) == 1 && nchunks > 0 {
		under.failAt = verif.Choice("fail-at", nchunks)
		under.partial = []int{0, 1, 2, 2047}[verif.Choice("partial", 4)]
	}
	w := NewChunkedWriter(under, 2048)
	got, err := w.Write(append([]byte{}, p...))
	var all []byte
	for i, c := range under.chunks {
		verif.Assert(len(c) <= 2048, "chunk-at-most-2048")
		if under.failAt < 0 && i < len(under.chunks)-1 {
			verif.Assert(len(c) == 2048, "chunks-are-maximal")
		}
		all = append(all, c...)
	}
	verif.Assert(len(all) <= n && verif.Eq(all, p[:len(all)]), "accepted-bytes-are-a-prefix-of-p")
	if under.failAt < 0 {
		verif.Assert(err == nil && got == n && len(all) == n, "everything-written-and-counted")
		verif.Assert(len(under.chunks) == nchunks, "number-of-chunks")
	} else {
		verif.Assert(err != nil, "underlying-error-propagates")
		verif.Assert(got == under.failAt*2048, "count-is-bytes-before-the-failing-call")
		verif.Assert(under.calls == under.failAt+1, "stops-at-the-first-error")
	}
	verif.Reach("end")
}

// Every payload length 0..6200 (beyond three chunks) with a healthy underlying writer: the
// chunks are maximal, at most 2048 bytes, and concatenate to p; everything is counted.
func Harness_C09_q_chunked_every_length() {
	n := verif.Choice("len", 6201)
	p := verif.Bytes("p", n)
	under := &ccWriter{failAt: -1}
	got, err := NewChunkedWriter(under, 2048).Write(append([]byte{}, p...))
	var all []byte
	for i, c := range under.chunks {
		verif.Assert(len(c) <= 2048 && len(c) > 0, "chunk-at-most-2048")
		if i < len(under.chunks)-1 {
			verif.Assert(len(c) == 2048, "chunks-are-maximal")
		}
		all = append(all, c...)
	}
	verif.Assert(err == nil && got == n && verif.Eq(all, p), "everything-written-and-counted")
	verif.Assert(len(under.chunks) == (n+2047)/2048, "number-of-chunks")
	verif.Reach("end")
}
